// check is the driver of the deterministic-simulation checks: it rebuilds the simulator against /repo's current working
// tree (map-order overlay + verif hooks), fans seeds out over worker processes, minimises and confirms violations, matches
// known findings and writes the evidence file.
//
//	check <PROPERTY> [--tier quick|thorough] [--runs N] [--workers N] [--replay file] [--keep]
//	check selftest-determinism [--runs N]
//
// Exit codes: 0 property held on everything explored (known findings are printed as KNOWN-FINDING lines),
// 1 violation (a line "VIOLATION property=<id> replay=<path>"), 2 harness / build trouble (never a violation).
package main

import (
	"bufio"
	"bytes"
	"crypto/sha256"
	"encoding/json"
	"flag"
	"fmt"
	"os"
	"os/exec"
	"path/filepath"
	"runtime"
	"sort"
	"strconv"
	"strings"
	"sync"
	"sync/atomic"
	"time"
)

const goBin = "go1.26.8"

// verifDir: the registered checks always run from /verif. A background sweep started from a snapshot of the committed
// /verif (`vp run`) sets VERIF_DIR to that snapshot so that edits in /verif do not disturb it; like every experiment it
// must redirect its evidence.
var verifDir = "/verif"

// repoDir: the registered checks always build from /repo's working tree. Experiments against a deliberately broken copy
// (tools/seedrun.sh) point VERIF_EXPERIMENT_REPO at a scratch worktree instead, so that /repo is never modified and several
// experiments can run side by side; such runs must also redirect their evidence (VERIF_EVIDENCE_DIR) - enforced below.
var repoDir = "/repo"

func init() {
	if d := os.Getenv("VERIF_DIR"); d != "" && d != verifDir {
		if os.Getenv("VERIF_EVIDENCE_DIR") == "" || os.Getenv("VERIF_REPLAY_DIR") == "" {
			fmt.Fprintln(os.Stderr, "check: VERIF_DIR needs VERIF_EVIDENCE_DIR and VERIF_REPLAY_DIR (registered checks run from /verif)")
			os.Exit(2)
		}
		verifDir = d
	}
	if d := os.Getenv("VERIF_EXPERIMENT_REPO"); d != "" {
		if os.Getenv("VERIF_EVIDENCE_DIR") == "" {
			fmt.Fprintln(os.Stderr, "check: VERIF_EXPERIMENT_REPO needs VERIF_EVIDENCE_DIR (evidence of experiments never goes to /verif/evidence)")
			os.Exit(2)
		}
		repoDir = d
	}
}

type budget struct{ quick, thorough int }

// runs per tier (bases × positions for C07 are derived inside the engine)
// quick: the check run on every change (about 30-80 s after the build); thorough: about 12-18 min on 16 workers at the
// measured rates (150 000 - 280 000 runs per hour for the whole-system engine)
var budgets = map[string]budget{
	"C01": {2500, 40000}, "C02": {2500, 50000}, "C03": {3000, 60000}, "C04": {2000, 30000}, "C05": {2500, 25000},
	"C06": {2500, 60000}, "C07": {3200, 32000}, "C08": {2500, 60000}, "C09": {2500, 45000}, "C10": {2000, 45000},
	"C11": {2000, 45000}, "C15": {4000, 100000}, "C19": {6000, 400000}, "C20": {3000, 60000},
}

var levels = map[string]string{"C07": "fault_enumeration"}

type violation struct {
	Property string `json:"property"`
	Oracle   string `json:"oracle"`
	Sig      string `json:"signature"`
	Msg      string `json:"message"`
	Step     int    `json:"step"`
}

type result struct {
	Plan       json.RawMessage   `json:"plan"`
	Viol       []violation       `json:"violations"`
	TraceHash  string            `json:"traceHash"`
	Steps      int               `json:"steps"`
	Summary    string            `json:"summary"`
	Stats      map[string]int    `json:"stats"`
	Probes     map[string]int    `json:"probes"`
	SimTimeS   float64           `json:"simTimeS"`
	States     int               `json:"states"`
	NonTrivial bool              `json:"nonTrivial"`
	Harness    string            `json:"harness"`
	WallMs     float64           `json:"wallMs"`
	Effects    int               `json:"effects"`
	Crashes    int               `json:"crashes"`
	CapHit     bool              `json:"capHit"`
	PanicStack string            `json:"panicStack"`
	Extra      map[string]string `json:"extra"`
	Porcupine  map[string]int    `json:"porcupine"`
}

type workerLine struct {
	Run    int      `json:"run"`
	Res    result   `json:"res"`
	Trace  []string `json:"trace"`
	Used   []uint32 `json:"used"`
	States []string `json:"states"`
}

type job struct{ from, to int }

// properties whose statement covers a panic of the code under test (server / store goroutine dies)
var panicInScope = map[string]bool{"C08": true, "C09": true, "C15": true, "C19": true, "C20": true}

// panicFrame extracts the panic message and the top frame inside the repository from a crashed worker's output.
func panicFrame(out string) (string, string) {
	i := strings.Index(out, "panic: ")
	if i < 0 {
		i = strings.Index(out, "fatal error: ")
		if i < 0 {
			return "", ""
		}
	}
	rest := out[i:]
	msg := rest
	if j := strings.Index(msg, "\n"); j >= 0 {
		msg = msg[:j]
	}
	if strings.Contains(msg, "test timed out") {
		return "", ""
	}
	for _, l := range strings.Split(rest, "\n") {
		l = strings.TrimSpace(l)
		if strings.HasPrefix(l, repoDir+"/pkg/") {
			if j := strings.Index(l, " "); j >= 0 {
				l = l[:j]
			}
			return strings.TrimPrefix(l, repoDir+"/"), msg
		}
	}
	return "", msg
}

type planHead struct {
	Property string `json:"property"`
	Profile  string `json:"profile"`
	Seed     uint64 `json:"seed"`
	Sched    struct {
		Policy string `json:"policy"`
	} `json:"sched"`
}

type finding struct {
	kind     string // finding | fixed
	property string
	sig      string
	replay   string
	text     string
}

func fatal2(format string, a ...any) {
	fmt.Fprintf(os.Stderr, "check: "+format+"\n", a...)
	os.Exit(2)
}

func goEnv() []string {
	env := os.Environ()
	env = append(env, "GOFLAGS=-mod=mod", "GOPROXY=off", "GOSUMDB=off", "GOTOOLCHAIN=local", "CGO_ENABLED=0")
	return env
}

func run(dir string, env []string, name string, args ...string) (string, error) {
	cmd := exec.Command(name, args...)
	cmd.Dir = dir
	cmd.Env = env
	var buf bytes.Buffer
	cmd.Stdout = &buf
	cmd.Stderr = &buf
	err := cmd.Run()
	return buf.String(), err
}

// build produces the simulator test binary for the current working tree of /repo.
func build(work string) string {
	ov := filepath.Join(work, "ov")
	if err := os.MkdirAll(ov, 0755); err != nil {
		fatal2("mkdir: %v", err)
	}
	detmap := filepath.Join(verifDir, "bin", "detmap")
	if _, err := os.Stat(detmap); err != nil {
		if out, err := run(filepath.Join(verifDir, "tools/detmap"), goEnv(), goBin, "build", "-o", detmap, "."); err != nil {
			fatal2("building detmap failed:\n%s", out)
		}
	}
	if out, err := run(verifDir, goEnv(), detmap, "-repo", repoDir, "-out", ov, "-rt", filepath.Join(verifDir, "sim/verifrt/verifrt.go.txt")); err != nil {
		fatal2("map-order overlay (detmap) failed on /repo's working tree:\n%s", out)
	}
	// keep the harness module's go.sum in step with the repository's
	if b, err := os.ReadFile(filepath.Join(repoDir, "go.sum")); err == nil {
		old, _ := os.ReadFile(filepath.Join(verifDir, "sim/go.sum"))
		merged := mergeSum(old, b)
		if !bytes.Equal(merged, old) {
			_ = os.WriteFile(filepath.Join(verifDir, "sim/go.sum"), merged, 0644)
		}
	}
	bin := filepath.Join(work, "sim.test")
	args := []string{"test", "-c", "-tags", "verif", "-overlay", filepath.Join(ov, "overlay.json"), "-vet=off", "-o", bin}
	if repoDir != "/repo" {
		// experiment: the harness module's replace directive points at the scratch tree through a private go.mod
		gm, _ := os.ReadFile(filepath.Join(verifDir, "sim/go.mod"))
		gs, _ := os.ReadFile(filepath.Join(verifDir, "sim/go.sum"))
		mf := filepath.Join(work, "go.mod")
		_ = os.WriteFile(mf, bytes.ReplaceAll(gm, []byte("=> /repo"), []byte("=> "+repoDir)), 0644)
		_ = os.WriteFile(filepath.Join(work, "go.sum"), gs, 0644)
		args = append(args, "-modfile="+mf)
	}
	out, err := run(filepath.Join(verifDir, "sim"), goEnv(), goBin, append(args, ".")...)
	if err != nil {
		fatal2("building the simulator against /repo failed (exit 2, not a violation):\n%s", out)
	}
	return bin
}

func mergeSum(a, b []byte) []byte {
	set := map[string]bool{}
	var lines []string
	for _, src := range [][]byte{a, b} {
		for _, l := range strings.Split(string(src), "\n") {
			l = strings.TrimSpace(l)
			if l != "" && !set[l] {
				set[l] = true
				lines = append(lines, l)
			}
		}
	}
	sort.Strings(lines)
	return []byte(strings.Join(lines, "\n") + "\n")
}

func repoInfo() map[string]string {
	info := map[string]string{}
	if out, err := run(repoDir, os.Environ(), "git", "rev-parse", "HEAD"); err == nil {
		info["repoHead"] = strings.TrimSpace(out)
	}
	if out, err := run(repoDir, os.Environ(), "git", "diff", "HEAD"); err == nil {
		info["dirtyDiffSha256"] = fmt.Sprintf("%x", sha256.Sum256([]byte(out)))
		info["dirty"] = strconv.FormatBool(strings.TrimSpace(out) != "")
	}
	return info
}

func loadFindings() []finding {
	var out []finding
	f, err := os.Open(filepath.Join(verifDir, "known-findings.txt"))
	if err != nil {
		return nil
	}
	defer f.Close()
	sc := bufio.NewScanner(f)
	sc.Buffer(make([]byte, 1<<20), 1<<20)
	for sc.Scan() {
		l := strings.TrimSpace(sc.Text())
		if l == "" || strings.HasPrefix(l, "#") {
			continue
		}
		var fd finding
		switch {
		case strings.HasPrefix(l, "finding:"):
			fd.kind = "finding"
			l = strings.TrimSpace(strings.TrimPrefix(l, "finding:"))
		case strings.HasPrefix(l, "fixed:"):
			fd.kind = "fixed"
			l = strings.TrimSpace(strings.TrimPrefix(l, "fixed:"))
		default:
			continue
		}
		rest := []string{}
		for _, tok := range strings.Fields(l) {
			switch {
			case strings.HasPrefix(tok, "property=") && fd.property == "":
				fd.property = strings.TrimPrefix(tok, "property=")
			case strings.HasPrefix(tok, "signature=") && fd.sig == "":
				fd.sig = strings.TrimPrefix(tok, "signature=")
			case strings.HasPrefix(tok, "replay=") && fd.replay == "":
				fd.replay = strings.TrimPrefix(tok, "replay=")
			default:
				rest = append(rest, tok)
			}
		}
		fd.text = strings.Join(rest, " ")
		out = append(out, fd)
	}
	return out
}

// sigMatches: exact, or pattern with a trailing '*'.
func sigMatches(pattern, sig string) bool {
	if strings.HasSuffix(pattern, "*") {
		return strings.HasPrefix(sig, strings.TrimSuffix(pattern, "*"))
	}
	return pattern == sig
}

type agg struct {
	mu          sync.Mutex
	evals       int
	nontriv     map[string]bool
	traces      map[string]bool
	states      map[string]bool
	stats       map[string]int
	other       map[string]int
	probes      map[string]int
	policies    map[string]int
	profiles    map[string]int
	steps       int
	simTime     float64
	effects     int
	crashes     int
	capHits     int
	harness     []string
	samples     []json.RawMessage
	viols       map[string]*workerLine // first run per signature
	violCount   map[string]int
	porcupine   map[string]int
	firstSeed   uint64
	lastSeed    uint64
	sumWallMs   float64
	inconcl     int
	sampleEvery int
	rule        string
}

func newAgg() *agg {
	return &agg{nontriv: map[string]bool{}, traces: map[string]bool{}, states: map[string]bool{}, stats: map[string]int{}, other: map[string]int{}, probes: map[string]int{},
		policies: map[string]int{}, profiles: map[string]int{}, viols: map[string]*workerLine{}, violCount: map[string]int{}, porcupine: map[string]int{}}
}

func (a *agg) add(l *workerLine) {
	a.mu.Lock()
	defer a.mu.Unlock()
	r := &l.Res
	if r.Harness != "" {
		if len(a.harness) < 5 {
			a.harness = append(a.harness, fmt.Sprintf("run %d: %s\n%s", l.Run, r.Harness, r.PanicStack))
		}
		return
	}
	a.evals++
	var ph planHead
	_ = json.Unmarshal(r.Plan, &ph)
	if a.evals == 1 {
		a.firstSeed = ph.Seed
	}
	a.lastSeed = ph.Seed
	a.traces[r.TraceHash] = true
	if r.NonTrivial {
		a.nontriv[r.TraceHash] = true
	}
	if len(a.states) < 3000000 {
		for _, s := range l.States {
			a.states[s] = true
		}
	}
	for k, v := range r.Stats {
		if strings.HasPrefix(k, "fault/") {
			a.stats[k] += v
		} else {
			a.other[k] += v
		}
	}
	for k, v := range r.Probes {
		a.probes[k] += v
	}
	for k, v := range r.Porcupine {
		a.porcupine[k] += v
	}
	a.policies[ph.Sched.Policy]++
	a.profiles[ph.Profile]++
	a.steps += r.Steps
	a.simTime += r.SimTimeS
	a.effects += r.Effects
	a.crashes += r.Crashes
	a.sumWallMs += r.WallMs
	if r.CapHit {
		a.capHits++
	}
	if l.Trace != nil && len(r.Viol) == 0 && len(a.samples) < 3 {
		tr := l.Trace
		if len(tr) > 120 {
			tr = append(append([]string{}, tr[:120]...), fmt.Sprintf("… %d more actions", len(l.Trace)-120))
		}
		sm, _ := json.Marshal(map[string]any{"run": l.Run, "plan": r.Plan, "trace": tr, "final": r.Summary, "steps": r.Steps, "traceHash": r.TraceHash})
		a.samples = append(a.samples, sm)
	}
	if r.Extra["rule"] != "" {
		a.rule = r.Extra["rule"]
	}
	for _, v := range r.Viol {
		a.violCount[v.Sig]++
		if _, ok := a.viols[v.Sig]; !ok {
			a.viols[v.Sig] = l
		}
	}
}

func main() {
	if len(os.Args) < 2 {
		fatal2("usage: check <PROPERTY|selftest-determinism|selftest-fidelity> [flags]")
	}
	prop := os.Args[1]
	fs := flag.NewFlagSet("check", flag.ExitOnError)
	tier := fs.String("tier", os.Getenv("VERIF_TIER"), "quick|thorough")
	runsFlag := fs.Int("runs", 0, "number of runs (overrides the tier budget)")
	workers := fs.Int("workers", runtime.NumCPU(), "worker processes")
	replay := fs.String("replay", "", "replay file")
	keep := fs.Bool("keep", false, "keep the work directory")
	chunk := fs.Int("chunk", 100, "runs per worker process")
	maxWall := fs.Int("max-wall-s", 0, "stop starting new chunks after this many seconds")
	_ = fs.Parse(os.Args[2:])
	if *tier == "" {
		*tier = "quick"
	}
	seed := uint64(1)
	if v := os.Getenv("VERIF_SEED"); v != "" {
		if n, err := strconv.ParseUint(v, 10, 64); err == nil {
			seed = n
		} else if n, err := strconv.ParseInt(v, 10, 64); err == nil {
			seed = uint64(n)
		}
	}
	work := filepath.Join(verifDir, ".work", fmt.Sprintf("%s-%d", prop, os.Getpid()))
	if !*keep {
		defer os.RemoveAll(work)
	}
	start := time.Now()
	bin := build(work)
	buildS := time.Since(start).Seconds()

	if prop == "selftest-fidelity" {
		// the fake Atomix runtime against the SDK's in-memory Atomix (sim/fidelity_test.go), outside any bubble
		n := 40
		if *runsFlag > 0 {
			n = *runsFlag
		}
		out, err := runWorkerTest(bin, work, "TestAtomixFidelity", []string{fmt.Sprintf("VERIF_FID_SEEDS=%d", n), fmt.Sprintf("VERIF_FID_BASE=%d", seed), "GOMAXPROCS=4"}, 30*time.Minute)
		for _, l := range strings.Split(out, "\n") {
			if strings.Contains(l, "fidelity") || strings.Contains(l, "real:") || strings.Contains(l, "fake:") || strings.Contains(l, "FAIL") || strings.Contains(l, "panic") {
				fmt.Println(l)
			}
		}
		if !*keep {
			os.RemoveAll(work)
		}
		if err != nil {
			fmt.Println("selftest-fidelity: FAILED")
			os.Exit(2)
		}
		fmt.Println("selftest-fidelity: ok")
		os.Exit(0)
	}
	if prop == "selftest-determinism" {
		code := selftest(bin, work, *runsFlag, *workers)
		if !*keep {
			os.RemoveAll(work)
		}
		os.Exit(code)
	}
	if _, ok := budgets[prop]; !ok {
		fatal2("unknown property %q", prop)
	}
	if *replay != "" {
		code := doReplay(bin, work, prop, *replay)
		if !*keep {
			os.RemoveAll(work)
		}
		os.Exit(code)
	}

	n := budgets[prop].quick
	if *tier == "thorough" {
		n = budgets[prop].thorough
	}
	if *runsFlag > 0 {
		n = *runsFlag
	}
	findings := loadFindings()

	// known findings of this property are replayed first
	type kf struct {
		f        finding
		observed int
		replayed string
	}
	var kfs []*kf
	for _, f := range findings {
		if f.kind == "finding" && f.property == prop {
			k := &kf{f: f}
			if f.replay != "" {
				k.replayed = replayOnce(bin, work, filepath.Join(verifDir, f.replay), f.sig)
			}
			kfs = append(kfs, k)
		}
	}

	a := newAgg()
	jobs := make(chan job, 4096)
	var wg sync.WaitGroup
	var failMu, pendingMu sync.Mutex
	var workerFail []string
	var retry []job
	var inFlight int64
	panicPlans := map[string][]byte{}
	panicMsgs := map[string]string{}
	panicCount := map[string]int{}
	for w := 0; w < *workers; w++ {
		wg.Add(1)
		go func(w int) {
			defer wg.Done()
			for j := range jobs {
				atomicAdd(&inFlight, 1)
				out := filepath.Join(work, fmt.Sprintf("shard-%d-%d.jsonl", j.from, j.to))
				env := append(goEnv(), "GOMAXPROCS=1", "VERIF_PROP="+prop, "VERIF_TIER="+*tier, fmt.Sprintf("VERIF_BASE=%d", seed),
					fmt.Sprintf("VERIF_FROM=%d", j.from), fmt.Sprintf("VERIF_TO=%d", j.to), "VERIF_OUT="+out)
				cmd := exec.Command(bin, "-test.run", "^TestWorker$", "-test.timeout", "8m")
				cmd.Env = env
				cmd.Dir = work
				var buf bytes.Buffer
				cmd.Stdout = &buf
				cmd.Stderr = &buf
				err := cmd.Run()
				lines := readShard(out)
				for _, l := range lines {
					a.add(l)
				}
				if err != nil || len(lines) < j.to-j.from {
					// a worker died: a panic on a goroutine of the code under test (or a watchdog)
					tail := buf.String()
					if len(tail) > 12000 {
						tail = tail[len(tail)-12000:]
					}
					cur, _ := os.ReadFile(out + ".current")
					frame, msg := panicFrame(tail)
					failMu.Lock()
					if frame != "" && panicInScope[prop] && len(cur) > 0 {
						sig := prop + "/panic/" + frame
						panicCount[sig]++
						if _, ok := panicPlans[sig]; !ok {
							panicPlans[sig] = cur
							panicMsgs[sig] = msg
						}
					} else {
						workerFail = append(workerFail, fmt.Sprintf("worker for runs [%d,%d) failed after %d runs: %v\n%s", j.from, j.to, len(lines), err, tail))
					}
					failMu.Unlock()
					// the rest of the chunk is run by a fresh process (the failing ordinal is skipped)
					if next := j.from + len(lines) + 1; next < j.to && len(lines) < j.to-j.from {
						pendingMu.Lock()
						retry = append(retry, job{next, j.to})
						pendingMu.Unlock()
					}
				}
				os.Remove(out + ".current")
				os.Remove(out)
				atomicAdd(&inFlight, -1)
			}
		}(w)
	}
	deadline := time.Time{}
	if *maxWall > 0 {
		deadline = start.Add(time.Duration(*maxWall) * time.Second)
	}
	if per := (n + *workers - 1) / *workers; per < *chunk {
		*chunk = per
		if *chunk < 1 {
			*chunk = 1
		}
	}
	for from := 0; from < n; from += *chunk {
		if !deadline.IsZero() && time.Now().After(deadline) {
			break
		}
		to := from + *chunk
		if to > n {
			to = n
		}
		jobs <- job{from, to}
	}
	// wait for the queue to drain, re-dispatching the remainders of chunks whose worker died
	for {
		for len(jobs) > 0 {
			time.Sleep(50 * time.Millisecond)
		}
		time.Sleep(300 * time.Millisecond)
		pendingMu.Lock()
		r := retry
		retry = nil
		pendingMu.Unlock()
		if len(r) == 0 {
			if idle(&inFlight) {
				break
			}
			continue
		}
		for _, j := range r {
			jobs <- j
		}
	}
	close(jobs)
	wg.Wait()
	wall := time.Since(start).Seconds()

	exit := 0
	if len(workerFail) > 0 {
		fmt.Fprintf(os.Stderr, "check: %d worker process(es) failed (harness trouble, exit 2):\n%s\n", len(workerFail), workerFail[0])
		exit = 2
	}
	if len(a.harness) > 0 {
		fmt.Fprintf(os.Stderr, "check: %d run(s) reported harness trouble (exit 2), first:\n%s\n", len(a.harness), a.harness[0])
		exit = 2
	}

	// violations: known findings vs new
	sigs := make([]string, 0, len(a.viols))
	for s := range a.viols {
		sigs = append(sigs, s)
	}
	sort.Strings(sigs)
	newViol := 0
	type vout struct {
		sig, path, msg string
	}
	var newSigs []string
	for _, sig := range sigs {
		known := false
		for _, k := range kfs {
			if sigMatches(k.f.sig, sig) {
				k.observed += a.violCount[sig]
				known = true
			}
		}
		if !known {
			newSigs = append(newSigs, sig)
		}
	}
	outs := make([]vout, len(newSigs))
	sem := make(chan struct{}, *workers)
	var mwg sync.WaitGroup
	for i, sig := range newSigs {
		mwg.Add(1)
		go func(i int, sig string) {
			defer mwg.Done()
			sem <- struct{}{}
			defer func() { <-sem }()
			l := a.viols[sig]
			o := vout{sig: sig}
			// at most maxMinimise signatures are minimised; the rest are confirmed and written unminimised
			o.path = minimiseAndWrite(bin, work, prop, sig, l, seed, i < 6)
			for _, v := range l.Res.Viol {
				if v.Sig == sig {
					o.msg = v.Msg
				}
			}
			outs[i] = o
		}(i, sig)
	}
	mwg.Wait()
	for i, o := range outs {
		newViol++
		if o.path == "" {
			fmt.Fprintf(os.Stderr, "check: violation %s seen in run %d did not reproduce in a fresh process (harness defect, exit 2)\n", o.sig, a.viols[newSigs[i]].Run)
			if exit == 0 {
				exit = 2
			}
			continue
		}
		fmt.Printf("violation: %s (seen in %d runs): %s\n", o.sig, a.violCount[o.sig], o.msg)
		fmt.Printf("VIOLATION property=%s replay=%s\n", prop, o.path)
		exit = 1
	}
	psigs := make([]string, 0, len(panicPlans))
	for s := range panicPlans {
		psigs = append(psigs, s)
	}
	sort.Strings(psigs)
	for _, sig := range psigs {
		known := false
		for _, k := range kfs {
			if sigMatches(k.f.sig, sig) {
				k.observed += panicCount[sig]
				known = true
			}
		}
		if known {
			continue
		}
		newViol++
		path := writePanicReplay(bin, work, prop, sig, panicPlans[sig], panicMsgs[sig], seed)
		if path == "" {
			fmt.Fprintf(os.Stderr, "check: worker panic %s did not reproduce in a fresh process (exit 2)\n", sig)
			if exit == 0 {
				exit = 2
			}
			continue
		}
		fmt.Printf("violation: %s (process died in %d runs): %s\n", sig, panicCount[sig], panicMsgs[sig])
		fmt.Printf("VIOLATION property=%s replay=%s\n", prop, path)
		exit = 1
	}
	for _, k := range kfs {
		obs := fmt.Sprintf("observed in %d runs of this batch", k.observed)
		if k.replayed != "" {
			obs += "; recorded replay: " + k.replayed
		}
		fmt.Printf("KNOWN-FINDING: property=%s signature=%s %s (%s)\n", prop, k.f.sig, k.f.text, obs)
	}
	writeEvidence(prop, *tier, seed, a, wall, buildS, newViol, len(kfs), *workers)
	rate := 0.0
	if wall > 0 {
		rate = float64(a.evals) / wall * 3600
	}
	fmt.Printf("check %s tier=%s seed=%d runs=%d distinct-traces=%d non-trivial=%d states=%d steps=%d wall=%.1fs (build %.1fs) runs/hour=%.0f violations=%d known=%d\n",
		prop, *tier, seed, a.evals, len(a.traces), len(a.nontriv), len(a.states), a.steps, wall, buildS, rate, newViol, len(kfs))
	if a.evals == 0 && exit == 0 {
		exit = 2
	}
	if !*keep {
		os.RemoveAll(work)
	}
	os.Exit(exit)
}

func readShard(path string) []*workerLine {
	f, err := os.Open(path)
	if err != nil {
		return nil
	}
	defer f.Close()
	var out []*workerLine
	rd := bufio.NewReaderSize(f, 1<<20)
	for {
		line, err := rd.ReadBytes('\n')
		if len(bytes.TrimSpace(line)) > 0 {
			l := &workerLine{}
			if json.Unmarshal(line, l) == nil {
				out = append(out, l)
			}
		}
		if err != nil {
			break
		}
	}
	return out
}

func runWorkerTest(bin, work, test string, env []string, timeout time.Duration) (string, error) {
	cmd := exec.Command(bin, "-test.run", "^"+test+"$", "-test.timeout", "20m")
	cmd.Env = append(append(goEnv(), "GOMAXPROCS=1"), env...)
	cmd.Dir = work
	var buf bytes.Buffer
	cmd.Stdout = &buf
	cmd.Stderr = &buf
	done := make(chan error, 1)
	if err := cmd.Start(); err != nil {
		return "", err
	}
	go func() { done <- cmd.Wait() }()
	select {
	case err := <-done:
		return buf.String(), err
	case <-time.After(timeout):
		_ = cmd.Process.Kill()
		return buf.String(), fmt.Errorf("timeout")
	}
}

// minimiseAndWrite minimises the failing plan, confirms it in a fresh process and writes the replay file.
func minimiseAndWrite(bin, work, prop, sig string, l *workerLine, seed uint64, minimise bool) string {
	tag := fmt.Sprintf("%x", sha256.Sum256([]byte(sig)))[:8]
	planPath := filepath.Join(work, "viol-"+tag+".plan.json")
	_ = os.WriteFile(planPath, l.Res.Plan, 0644)
	minOut := filepath.Join(work, "viol-"+tag+".min.json")
	if minimise {
		_, _ = runWorkerTest(bin, work, "TestMinimise", []string{"VERIF_PLAN=" + planPath, "VERIF_SIG=" + sig, "VERIF_OUT=" + minOut, "VERIF_MIN_RUNS=250", "VERIF_MIN_WALL_S=75"}, 4*time.Minute)
	}
	var mo struct {
		Runs int             `json:"runs"`
		Plan json.RawMessage `json:"plan"`
		Line *workerLine     `json:"line"`
	}
	plan := l.Res.Plan
	minimised := false
	if b, err := os.ReadFile(minOut); err == nil && json.Unmarshal(b, &mo) == nil && mo.Plan != nil {
		plan = mo.Plan
		minimised = true
	}
	// confirm in a fresh process, twice (same trace hash both times)
	finalPlan := filepath.Join(work, "viol-"+tag+".final.json")
	_ = os.WriteFile(finalPlan, plan, 0644)
	var lines [2]*workerLine
	for i := 0; i < 2; i++ {
		out := filepath.Join(work, fmt.Sprintf("viol-%s.confirm%d.json", tag, i))
		_, _ = runWorkerTest(bin, work, "TestReplay", []string{"VERIF_PLAN=" + finalPlan, "VERIF_OUT=" + out}, 3*time.Minute)
		b, err := os.ReadFile(out)
		if err != nil {
			return ""
		}
		wl := &workerLine{}
		if json.Unmarshal(b, wl) != nil {
			return ""
		}
		lines[i] = wl
	}
	ok := lines[0].Res.TraceHash == lines[1].Res.TraceHash
	var viol *violation
	for i := range lines[0].Res.Viol {
		if lines[0].Res.Viol[i].Sig == sig {
			viol = &lines[0].Res.Viol[i]
		}
	}
	if !ok || viol == nil {
		return ""
	}
	rf := map[string]any{
		"property": prop, "violation": viol, "seed": seed, "run": l.Run, "plan": json.RawMessage(plan), "trace": lines[0].Trace, "traceHash": lines[0].Res.TraceHash,
		"summary": lines[0].Res.Summary, "minimised": minimised, "minimiserRuns": mo.Runs, "buildInfo": repoInfo(),
		"replay": fmt.Sprintf("cd /verif && ./bin/check %s --replay <this file>", prop),
	}
	b, _ := json.MarshalIndent(rf, "", " ")
	rdir := filepath.Join(verifDir, "replays")
	if d := os.Getenv("VERIF_REPLAY_DIR"); d != "" {
		rdir = d
	}
	_ = os.MkdirAll(rdir, 0755)
	path := filepath.Join(rdir, fmt.Sprintf("%s-%d-%s.json", prop, seed, tag))
	if err := os.WriteFile(path, b, 0644); err != nil {
		return ""
	}
	return path
}

// replayOnce replays a recorded replay file and reports whether its signature still reproduces.
func replayOnce(bin, work, file, sig string) string {
	out := filepath.Join(work, "kf-replay.json")
	os.Remove(out)
	wout, _ := runWorkerTest(bin, work, "TestReplay", []string{"VERIF_PLAN=" + file, "VERIF_OUT=" + out}, 3*time.Minute)
	b, err := os.ReadFile(out)
	if err != nil {
		if frame, _ := panicFrame(wout); frame != "" && strings.Contains(sig, "/panic/") {
			return "still reproduces (process dies)"
		}
		return "could not be replayed"
	}
	wl := &workerLine{}
	if json.Unmarshal(b, wl) != nil {
		return "could not be replayed"
	}
	for _, v := range wl.Res.Viol {
		if sigMatches(sig, v.Sig) {
			return "still reproduces"
		}
	}
	return "no longer reproduces"
}

func doReplay(bin, work, prop, file string) int {
	if abs, err := filepath.Abs(file); err == nil {
		file = abs
	}
	b, err := os.ReadFile(file)
	if err != nil {
		fatal2("replay file: %v", err)
	}
	var rf struct {
		Violation *violation `json:"violation"`
		TraceHash string     `json:"traceHash"`
	}
	_ = json.Unmarshal(b, &rf)
	out := filepath.Join(work, "replay-out.json")
	log, _ := runWorkerTest(bin, work, "TestReplay", []string{"VERIF_PLAN=" + file, "VERIF_OUT=" + out, "VERIF_VERBOSE=1"}, 5*time.Minute)
	ob, err := os.ReadFile(out)
	if err != nil {
		if frame, msg := panicFrame(log); frame != "" {
			sig := prop + "/panic/" + frame
			fmt.Printf("the replayed run killed the process: %s at %s\n", msg, frame)
			if rf.Violation == nil || rf.Violation.Sig == sig {
				fmt.Printf("VIOLATION property=%s replay=%s\n", prop, file)
				return 1
			}
			fmt.Printf("(recorded signature was %s)\n", rf.Violation.Sig)
			fmt.Printf("VIOLATION property=%s replay=%s\n", prop, file)
			return 1
		}
		fmt.Fprintf(os.Stderr, "%s\n", log)
		fatal2("replay produced no result")
	}
	wl := &workerLine{}
	if err := json.Unmarshal(ob, wl); err != nil {
		fatal2("replay result: %v", err)
	}
	fmt.Println(wl.Res.Summary)
	if wl.Res.Harness != "" {
		fatal2("harness trouble during replay: %s", wl.Res.Harness)
	}
	if rf.Violation == nil {
		for _, v := range wl.Res.Viol {
			fmt.Printf("violation: %s: %s\n", v.Sig, v.Msg)
		}
		if len(wl.Res.Viol) > 0 {
			fmt.Printf("VIOLATION property=%s replay=%s\n", prop, file)
			return 1
		}
		return 0
	}
	for _, v := range wl.Res.Viol {
		if v.Sig == rf.Violation.Sig {
			if rf.TraceHash != "" && wl.Res.TraceHash != rf.TraceHash {
				fmt.Printf("violation %s reproduced, but along a different action trace (%s, recorded %s): the code under test changed or the replay diverged\n", v.Sig, wl.Res.TraceHash, rf.TraceHash)
			} else {
				fmt.Printf("violation reproduced exactly (trace hash %s): %s: %s\n", wl.Res.TraceHash, v.Sig, v.Msg)
			}
			fmt.Printf("VIOLATION property=%s replay=%s\n", prop, file)
			return 1
		}
	}
	fmt.Printf("replay ran clean: signature %s did not occur (trace hash %s, recorded %s)\n", rf.Violation.Sig, wl.Res.TraceHash, rf.TraceHash)
	return 0
}

func writeEvidence(prop, tier string, seed uint64, a *agg, wall, buildS float64, newViol, known, workers int) {
	level := "exploration"
	if l, ok := levels[prop]; ok {
		level = l
	}
	rate := 0.0
	if wall > 0 {
		rate = float64(a.evals) / wall * 3600
	}
	samples := a.samples
	if len(samples) == 0 {
		samples = []json.RawMessage{json.RawMessage(`"no sample run was emitted (all runs failed?)"`)}
	}
	ev := map[string]any{
		"property_id": prop, "tier": tier, "seed": seed, "level": level, "wall_s": wall, "violations": newViol,
		"coverage": map[string]any{
			"evaluations":              a.evals,
			"distinct_nontrivial":      len(a.nontriv),
			"rule":                     a.rule,
			"samples":                  samples,
			"distinct_traces":          len(a.traces),
			"distinct_abstract_states": len(a.states),
			"steps":                    a.steps,
			"runs_per_hour":            rate,
			"seeds":                    map[string]any{"base": seed, "first_run_seed": a.firstSeed, "last_run_seed": a.lastSeed, "derivation": "splitmix64(H(base, property, run ordinal))"},
			"simulated_time_s":         a.simTime,
			"durable_effects":          a.effects,
			"crashes_injected":         a.crashes,
			"faults_fired":             a.stats,
			"other_counters":           a.other,
			"probes":                   a.probes,
			"policies":                 a.policies,
			"profiles":                 a.profiles,
			"step_cap_hits":            a.capHits,
			"porcupine":                a.porcupine,
			"known_findings_listed":    known,
			"workers":                  workers,
			"build_s":                  buildS,
			"components":               components(prop),
			"repo":                     repoInfo(),
		},
		"assumptions": assumptions(prop),
	}
	b, _ := json.MarshalIndent(ev, "", " ")
	// VERIF_EVIDENCE_DIR redirects the evidence of experiments (runs against a deliberately broken tree) away from
	// /verif/evidence, which only ever describes runs against /repo as it is
	evDir := filepath.Join(verifDir, "evidence")
	if d := os.Getenv("VERIF_EVIDENCE_DIR"); d != "" {
		evDir = d
	}
	_ = os.MkdirAll(evDir, 0755)
	_ = os.WriteFile(filepath.Join(evDir, prop+".json"), b, 0644)
}

// selftest: determinism of the simulator — the same seeds run in several fresh processes at different GOMAXPROCS must
// give identical trace hashes.
func selftest(bin, work string, runs, workers int) int {
	if runs <= 0 {
		runs = 60
	}
	props := []string{}
	for p := range budgets {
		props = append(props, p)
	}
	if only := os.Getenv("VERIF_SELFTEST_PROPS"); only != "" {
		props = strings.Fields(only) // e.g. "C15 C19": re-test the engines a change touched, with more seeds
	}
	sort.Strings(props)
	bad := 0
	total := 0
	for _, prop := range props {
		type key struct{ run int }
		ref := map[int]string{}
		for ci, gmp := range []string{"1", "4", "16", "1"} {
			out := filepath.Join(work, fmt.Sprintf("self-%s-%d.jsonl", prop, ci))
			env := append(goEnv(), "GOMAXPROCS="+gmp, "VERIF_PROP="+prop, "VERIF_TIER=quick", "VERIF_BASE=7", "VERIF_FROM=0", fmt.Sprintf("VERIF_TO=%d", runs), "VERIF_OUT="+out)
			cmd := exec.Command(bin, "-test.run", "^TestWorker$", "-test.timeout", "8m")
			cmd.Env = env
			cmd.Dir = work
			if outb, err := cmd.CombinedOutput(); err != nil {
				fmt.Fprintf(os.Stderr, "selftest: worker failed for %s: %v\n%s\n", prop, err, tailStr(string(outb), 3000))
				if len(readShard(out)) == 0 {
					continue
				}
			}
			for _, l := range readShard(out) {
				h := l.Res.TraceHash + "|" + l.Res.Summary
				if ci == 0 {
					ref[l.Run] = h
					total++
				} else if ref[l.Run] != h {
					bad++
					fmt.Printf("NONDETERMINISTIC: property=%s run=%d GOMAXPROCS=%s\n  ref: %s\n  got: %s\n", prop, l.Run, gmp, tailStr(ref[l.Run], 300), tailStr(h, 300))
				}
			}
			os.Remove(out)
		}
	}
	fmt.Printf("selftest-determinism: %d seeds x 4 processes (GOMAXPROCS 1/4/16/1), %d divergences\n", total, bad)
	if bad > 0 || total == 0 {
		return 2
	}
	return 0
}

func tailStr(s string, n int) string {
	if len(s) > n {
		return s[len(s)-n:]
	}
	return s
}

func atomicAdd(p *int64, d int64) { atomic.AddInt64(p, d) }
func idle(p *int64) bool          { return atomic.LoadInt64(p) == 0 }

// writePanicReplay confirms that the plan kills a fresh process with the same top frame and writes the replay file.
func writePanicReplay(bin, work, prop, sig string, plan []byte, msg string, seed uint64) string {
	tag := fmt.Sprintf("%x", sha256.Sum256([]byte(sig)))[:8]
	planPath := filepath.Join(work, "panic-"+tag+".plan.json")
	_ = os.WriteFile(planPath, plan, 0644)
	out, err := runWorkerTest(bin, work, "TestReplay", []string{"VERIF_PLAN=" + planPath, "VERIF_OUT=" + filepath.Join(work, "panic-"+tag+".out.json")}, 3*time.Minute)
	frame, _ := panicFrame(out)
	if err == nil || prop+"/panic/"+frame != sig {
		return ""
	}
	rf := map[string]any{
		"property": prop, "violation": map[string]any{"property": prop, "oracle": "panic", "signature": sig, "message": msg}, "seed": seed,
		"plan": json.RawMessage(plan), "processDies": true, "buildInfo": repoInfo(),
		"replay": fmt.Sprintf("cd /verif && ./bin/check %s --replay <this file>", prop),
	}
	b, _ := json.MarshalIndent(rf, "", " ")
	rdir := filepath.Join(verifDir, "replays")
	if d := os.Getenv("VERIF_REPLAY_DIR"); d != "" {
		rdir = d
	}
	_ = os.MkdirAll(rdir, 0755)
	path := filepath.Join(rdir, fmt.Sprintf("%s-%d-%s.json", prop, seed, tag))
	if os.WriteFile(path, b, 0644) != nil {
		return ""
	}
	return path
}
