package main

// Static descriptions written into every evidence file: which components ran real code and which ran a stub, and what
// each check assumes.

func components(prop string) map[string]any {
	stubs := []string{
		"Atomix runtime (fake gRPC Map/IndexedMap services over bufconn; the real Atomix Go SDK runs on top)",
		"onos-topo (fake topo.Store)",
		"gNMI devices (fake gRPC gNMI servers over bufconn)",
		"model plugin (fake ModelPluginServiceClient behind the real plugin registry)",
		"southbound connection manager (stub gnmi.ConnManager; conn/client objects are the repository's own)",
		"onos-lib-go controller work queue (work-set runtime driving the real Reconcilers and Watchers)",
	}
	switch prop {
	case "C15":
		return map[string]any{
			"real": []string{"pkg/store/v2/transaction", "pkg/store/v2/proposal", "pkg/store/v2/configuration", "pkg/store/v3/transaction", "pkg/store/v3/configuration", "Atomix Go SDK (client side)"},
			"stub": stubs[:1],
		}
	case "C19":
		return map[string]any{
			"real": []string{"pkg/northbound/gnmi/v2 Server.Subscribe", "pkg/southbound/gnmi client (Subscribe/Poll/run)", "openconfig gnmi client"},
			"stub": []string{stubs[2], stubs[4], "northbound GNMI_SubscribeServer stream (scripted Recv, recording Send)"},
		}
	case "C20":
		return map[string]any{
			"real": []string{"pkg/controller/v3/transaction", "pkg/controller/v3/configuration", "pkg/controller/v3/mastership", "pkg/controller/connection", "pkg/store/v3/transaction", "pkg/store/v3/configuration", "pkg/pluginregistry", "pkg/southbound/gnmi client"},
			"stub": append(append([]string{}, stubs...), "v3 northbound (does not exist in the repository): the workload appends changes / requests rollbacks on the store directly"),
		}
	}
	return map[string]any{
		"real": []string{"pkg/northbound/gnmi/v2 (Set, Get)", "pkg/northbound/admin (RollbackTransaction)", "pkg/controller/v2/{transaction,proposal,configuration,mastership}",
			"pkg/controller/{connection,target}", "pkg/store/v2/{transaction,proposal,configuration}", "pkg/pluginregistry", "pkg/southbound/gnmi client/conn", "pkg/utils/**", "Atomix Go SDK (client side)"},
		"stub": stubs,
	}
}

func assumptions(prop string) []string {
	base := []string{
		"sampling, not proof: a clean batch is evidence only for the plans explored",
		"pre-emption granularity is the external call (Atomix, topo, device, plugin); in-memory data races between two calls are not explored",
		"the fake Atomix runtime is linearizable per primitive with one monotone version counter; event streams are ordered per subscription",
		"map iteration in /repo/pkg is made canonical (and seed-permuted) by a source overlay at build time; /repo itself is not modified",
		"single onos-config node; OIDC/OPA paths, the node controller and the real connection manager are not exercised",
	}
	switch prop {
	case "C15":
		return append(base, "porcupine results 'Unknown' (timeout) are counted as inconclusive, never as violations")
	case "C20":
		return append(base, "the TLA+ specification is used only as the source of the Order/Consistency predicates; it is not model-checked here")
	}
	return base
}
