module check

go 1.21
