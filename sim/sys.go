package sim

// Whole-system (v2) wiring: incarnations of the real stores / registry / reconcilers / watchers / northbound servers on
// top of the fakes; crash and restart; client calls; the run loop.

import (
	"context"
	"fmt"
	"math/rand"
	"os"
	"sort"
	"strings"
	"testing/synctest"
	"time"

	"github.com/google/uuid"
	adminapi "github.com/onosproject/onos-api/go/onos/config/admin"
	configapi "github.com/onosproject/onos-api/go/onos/config/v2"
	connctl "github.com/onosproject/onos-config/pkg/controller/connection"
	tgtctl "github.com/onosproject/onos-config/pkg/controller/target"
	ctlutils "github.com/onosproject/onos-config/pkg/controller/utils"
	cfgctl "github.com/onosproject/onos-config/pkg/controller/v2/configuration"
	msctl "github.com/onosproject/onos-config/pkg/controller/v2/mastership"
	propctl "github.com/onosproject/onos-config/pkg/controller/v2/proposal"
	txctl "github.com/onosproject/onos-config/pkg/controller/v2/transaction"
	nbadmin "github.com/onosproject/onos-config/pkg/northbound/admin"
	nb "github.com/onosproject/onos-config/pkg/northbound/gnmi/v2"
	"github.com/onosproject/onos-config/pkg/pluginregistry"
	"github.com/onosproject/onos-config/pkg/store/v2/configuration"
	"github.com/onosproject/onos-config/pkg/store/v2/proposal"
	"github.com/onosproject/onos-config/pkg/store/v2/transaction"
	"github.com/onosproject/onos-config/pkg/verifrt"
	"github.com/onosproject/onos-lib-go/pkg/controller"
	"github.com/openconfig/gnmi/proto/gnmi"
	"github.com/openconfig/gnmi/proto/gnmi_ext"
	"google.golang.org/grpc/codes"
	"google.golang.org/grpc/metadata"
	"google.golang.org/grpc/status"
)

const (
	ModelName    = "devicesim"
	ModelVersion = "1.0.0"
)

type seededReader struct{ r *rand.Rand }

func (s seededReader) Read(p []byte) (int, error) { return s.r.Read(p) }

// Incarnation is one life of the onos-config process.
type Incarnation struct {
	N      int
	ctx    context.Context
	cancel context.CancelFunc
	client *AtomixClient
	topo   *TopoClient
	conns  *Conns
	txs    transaction.Store
	props  proposal.Store
	cfgs   configuration.Store
	reg    pluginregistry.PluginRegistry
	ctls   []*Ctl
	server *nb.Server
	admin  *nbadmin.Server
	booted chan struct{}
	up     bool
	panic  any
}

// Call is one client request in flight or finished.
type Call struct {
	N         int
	Op        *ClientOp
	Probe     bool
	Inc       int
	Started   bool
	Returned  bool
	Cut       bool // cut by a crash: outcome unknown to the client
	StartStep int
	RetStep   int
	SetResp   *gnmi.SetResponse
	GetResp   *gnmi.GetResponse
	RbResp    *adminapi.RollbackResponse
	Err       error
	TxIndex   uint64
	TxID      string
	cancel    context.CancelFunc
	cancelled bool
	done      chan struct{}
}

// Sys is the simulated world.
type Sys struct {
	K       *Kernel
	Eff     *Effects
	RT      *Runtime
	Topo    *Topo
	Devs    map[string]*Device
	Plugin  *Plugin
	PluginB *Plugin // second model (Knobs.ModelB), nil otherwise
	Plan    *Plan
	Inc     *Incarnation
	Incs    []*Incarnation
	Calls   []*Call
	Probes  []*Call
	nextOp  int
	Healing bool
	Mon     []Monitor
	Viol    []*Violation
	Rec     *Recorder
	Crashes int
	noFault bool
	// observers (Knobs.Observers)
	obsStarted map[int]bool
	obsCancels []context.CancelFunc
	connUp  map[string]bool
	stopped bool
	// association of scenario calls with log indexes (MapCalls)
	callIndex map[int]uint64
	indexCall map[uint64]int
	// OnTaskStart is called when a reconcile task starts (monitors that bracket tasks)
	OnTaskStart func(task string)
}

// Violation is one oracle failure.
type Violation struct {
	Property string `json:"property"`
	Oracle   string `json:"oracle"`
	Sig      string `json:"signature"`
	Msg      string `json:"message"`
	Step     int    `json:"step"`
}

// Monitor is a property oracle attached to a run.
type Monitor interface {
	Name() string
}

// Report records a violation (first per signature).
func (s *Sys) Report(prop, oracle, shape, msg string) {
	sig := prop + "/" + oracle + "/" + shape
	for _, v := range s.Viol {
		if v.Sig == sig {
			return
		}
	}
	s.Viol = append(s.Viol, &Violation{Property: prop, Oracle: oracle, Sig: sig, Msg: s.K.Canon(msg), Step: s.K.StepN})
}

// NewSys builds the world for a plan (must run inside the bubble).
func NewSys(plan *Plan) *Sys {
	uuid.SetRand(seededReader{rand.New(rand.NewSource(int64(plan.Seed)))})
	uuid.SetClockSequence(1)
	rand.Seed(int64(plan.Seed))
	os.Setenv("POD_ID", "onos-config-0")
	verifrt.Seed.Store(plan.Knobs.MapSeed)
	k := NewKernel(&plan.Sched)
	s := &Sys{K: k, Eff: &Effects{}, Plan: plan, Devs: map[string]*Device{}, connUp: map[string]bool{}}
	s.RT = NewRuntime(k, s.Eff)
	if la := plan.Knobs.LateAck; len(la) > 0 {
		s.RT.LateAck = func(prim, op, key string) bool {
			for _, pre := range la {
				if strings.HasPrefix(prim+"/"+op+"/"+key, pre) {
					return true
				}
			}
			return false
		}
	}
	s.Topo = NewTopo(k, s.Eff)
	s.Topo.AddNode(ctlutils.GetOnosConfigID())
	s.Plugin = NewPlugin(k, ModelName, ModelVersion)
	runModelB = map[string][2]string{}
	for t, m := range plan.Knobs.ModelB {
		runModelB[t] = m
		if s.PluginB == nil {
			s.PluginB = NewPlugin(k, m[0], m[1])
			s.PluginB.Poison = PoisonValueB
			s.PluginB.sink = s.Plugin
		}
	}
	for _, t := range plan.Knobs.Targets {
		typ, ver := ModelOf(t)
		s.Topo.AddTarget(t, typ, ver, plan.Knobs.Persistent[t], plan.Knobs.ValidateCaps[t])
		d := NewDevice(k, t, s.Eff)
		d.Shared = plan.Knobs.SharedChannel
		if plan.Knobs.RejectDev {
			d.RejectValue = DevRejectValue
		}
		s.Devs[t] = d
	}
	s.Rec = NewRecorder(s)
	k.AddSource("clients", s.clientActions)
	k.AddSource("conn-up", s.connActions)
	return s
}

// Boot starts a new incarnation as a scheduled task and drives the scheduler until it is up.
func (s *Sys) Boot() error {
	ctx, cancel := context.WithCancel(context.Background())
	inc := &Incarnation{N: len(s.Incs) + 1, ctx: ctx, cancel: cancel, booted: make(chan struct{})}
	inc.client = s.RT.NewClient()
	inc.topo = s.Topo.Client(ctx)
	inc.conns = NewConns(s.K, ctx)
	s.Inc = inc
	s.Incs = append(s.Incs, inc)
	for t := range s.connUp {
		delete(s.connUp, t)
	}
	s.K.Active = fmt.Sprintf("boot/%d", inc.N)
	go func() {
		defer func() {
			if p := recover(); p != nil {
				inc.panic = p
				close(inc.booted)
			}
		}()
		var err error
		must := func(e error) {
			if e != nil {
				panic(e)
			}
		}
		inc.txs, err = transaction.NewAtomixStore(inc.client)
		must(err)
		inc.props, err = proposal.NewAtomixStore(inc.client)
		must(err)
		inc.cfgs, err = configuration.NewAtomixStore(inc.client)
		must(err)
		endpoints := []string{"fake-plugin:5152"}
		if s.PluginB != nil {
			endpoints = append(endpoints, "fake-plugin-b:5153")
		}
		inc.reg = pluginregistry.NewPluginRegistry(endpoints...)
		inc.reg.NewClientFn(func(endpoint string) (adminapi.ModelPluginServiceClient, error) {
			if endpoint == "fake-plugin-b:5153" {
				return &incPlugin{Plugin: s.PluginB, inc: ctx}, nil
			}
			return &incPlugin{Plugin: s.Plugin, inc: ctx}, nil
		})
		inc.reg.Start()
		mk := func(name string, rec controller.Reconciler, part func(controller.ID) string, ws ...controller.Watcher) {
			c := NewCtl(s.K, ctx, name, rec, part)
			c.OnStart = func(task string, id controller.ID) {
				if s.OnTaskStart != nil {
					s.OnTaskStart(task)
				}
			}
			for _, w := range ws {
				must(c.Watch(w))
			}
			inc.ctls = append(inc.ctls, c)
		}
		mk("connection", connctl.NewReconcilerForVerif(inc.conns, inc.topo), nil,
			connctl.NewConnWatcherForVerif(inc.conns), connctl.NewTopoWatcherForVerif(inc.topo))
		mk("target", tgtctl.NewReconcilerForVerif(inc.conns, inc.topo), nil,
			tgtctl.NewTopoWatcherForVerif(inc.topo), tgtctl.NewConnWatcherForVerif(inc.conns))
		mk("configuration", cfgctl.NewReconcilerForVerif(inc.topo, inc.conns, inc.cfgs), nil,
			cfgctl.NewWatcherForVerif(inc.cfgs), cfgctl.NewTopoWatcherForVerif(inc.topo))
		pp := &propctl.Partitioner{}
		mk("proposal", propctl.NewReconcilerForVerif(inc.topo, inc.conns, inc.props, inc.cfgs, inc.reg), func(id controller.ID) string {
			pk, _ := pp.Partition(id)
			return string(pk)
		}, propctl.NewWatcherForVerif(inc.props), propctl.NewConfigurationWatcherForVerif(inc.cfgs))
		mk("transaction", txctl.NewReconcilerForVerif(inc.txs, inc.props), nil,
			txctl.NewWatcherForVerif(inc.txs, inc.props), txctl.NewProposalWatcherForVerif(inc.props))
		mk("mastership", msctl.NewReconcilerForVerif(inc.topo, inc.cfgs), nil,
			msctl.NewTopoWatcherForVerif(inc.topo), msctl.NewConfigurationStoreWatcherForVerif(inc.cfgs))
		inc.server = nb.NewServerForVerif(inc.topo, inc.txs, inc.props, inc.cfgs, inc.reg, inc.conns, 0)
		inc.admin = nbadmin.NewServerForVerif(inc.txs, inc.cfgs, inc.reg)
		close(inc.booted)
	}()
	for n := 0; n < 5000; n++ {
		synctest.Wait()
		select {
		case <-inc.booted:
			if inc.panic != nil {
				return fmt.Errorf("boot panic: %v", inc.panic)
			}
			inc.up = true
			return nil
		default:
		}
		if !s.stepOnce() {
			return fmt.Errorf("boot stuck: nothing enabled")
		}
	}
	return fmt.Errorf("boot did not finish in 5000 steps")
}

// Crash stops the current incarnation: only durable state (Atomix, topo, devices) survives.
func (s *Sys) Crash() {
	inc := s.Inc
	if inc == nil || !inc.up {
		return
	}
	inc.up = false
	s.Crashes++
	s.K.Stat("fault/crash")
	for _, c := range append(append([]*Call{}, s.Calls...), s.Probes...) {
		if c != nil && c.Started && !c.Returned {
			c.Cut = true
		}
	}
	inc.cancel()
	inc.client.Close()
	inc.conns.Close()
	for _, c := range append(append([]*Call{}, s.Calls...), s.Probes...) {
		if c != nil && c.cancel != nil && !c.cancelled {
			c.cancelled = true
			c.cancel()
		}
	}
	synctest.Wait()
	if s.Rec != nil {
		s.Rec.OnCrash()
	}
}

func (s *Sys) connActions() []Action {
	if s.Inc == nil || !s.Inc.up {
		return nil
	}
	var acts []Action
	for _, t := range s.Plan.Knobs.Targets {
		t := t
		if s.connUp[t] {
			continue
		}
		if s.Plan.Knobs.NoDevice[t] && !s.Healing {
			continue
		}
		lazy := s.Plan.Knobs.ConnLate[t] && !s.Healing
		acts = append(acts, Action{Key: "fault/conn-up/" + t, Lazy: lazy, Fire: func() {
			s.connUp[t] = true
			s.Inc.conns.Up(s.Devs[t])
		}})
	}
	return acts
}

func syncExt(async, serial bool) *gnmi_ext.Extension {
	st := configapi.TransactionStrategy{}
	if !async {
		st.Synchronicity = configapi.TransactionStrategy_SYNCHRONOUS
	}
	if serial {
		st.Isolation = configapi.TransactionStrategy_SERIALIZABLE
	}
	b, _ := st.Marshal()
	return &gnmi_ext.Extension{Ext: &gnmi_ext.Extension_RegisteredExt{RegisteredExt: &gnmi_ext.RegisteredExtension{Id: configapi.TransactionStrategyExtensionID, Msg: b}}}
}

// CanonToGNMI converts a canonical model value into a gNMI typed value as a client would send it.
func CanonToGNMI(v string) *gnmi.TypedValue {
	i := strings.Index(v, ":")
	body := v[i+1:]
	switch v[:i] {
	case "s":
		return &gnmi.TypedValue{Value: &gnmi.TypedValue_StringVal{StringVal: body}}
	case "b":
		return &gnmi.TypedValue{Value: &gnmi.TypedValue_BoolVal{BoolVal: body == "true"}}
	case "u":
		var n uint64
		fmt.Sscan(body, &n)
		return &gnmi.TypedValue{Value: &gnmi.TypedValue_UintVal{UintVal: n}}
	case "i":
		var n int64
		fmt.Sscan(body, &n)
		return &gnmi.TypedValue{Value: &gnmi.TypedValue_IntVal{IntVal: n}}
	}
	return &gnmi.TypedValue{Value: &gnmi.TypedValue_StringVal{StringVal: body}}
}

// BuildSetRequest renders a scenario Set as a gNMI SetRequest.
func BuildSetRequest(op *ClientOp) *gnmi.SetRequest {
	req := &gnmi.SetRequest{}
	if !op.Async || op.Serial {
		req.Extension = append(req.Extension, syncExt(op.Async, op.Serial))
	}
	tgts := make([]string, 0, len(op.Targets))
	for t := range op.Targets {
		tgts = append(tgts, t)
	}
	sort.Strings(tgts)
	usePrefix := op.Prefix && len(tgts) == 1
	if usePrefix {
		req.Prefix = &gnmi.Path{Target: tgts[0]}
	}
	for _, t := range tgts {
		for _, o := range op.Targets[t] {
			tn := t
			if usePrefix {
				tn = ""
			}
			gp := o.P.ToGNMI(tn)
			if o.Del {
				req.Delete = append(req.Delete, gp)
			} else {
				req.Update = append(req.Update, &gnmi.Update{Path: gp, Val: CanonToGNMI(o.V)})
			}
		}
	}
	return req
}

func (s *Sys) callDone(i int) bool {
	if i < 0 {
		return true
	}
	if i >= len(s.Calls) || s.Calls[i] == nil {
		return false
	}
	return s.Calls[i].Returned || s.Calls[i].Cut
}

func (s *Sys) clientActions() []Action {
	if s.Inc == nil || !s.Inc.up {
		return nil
	}
	var acts []Action
	if s.nextOp < len(s.Plan.Scenario) {
		i := s.nextOp
		op := &s.Plan.Scenario[i]
		if s.callDone(op.WaitFor) {
			acts = append(acts, Action{Key: fmt.Sprintf("cli/%d", i), Task: fmt.Sprintf("cli/%d", i), Fire: func() {
				s.nextOp++
				for len(s.Calls) <= i {
					s.Calls = append(s.Calls, nil)
				}
				s.Calls[i] = s.startCall(i, op, false)
			}})
		}
	}
	// late context cancellations
	if s.Plan.Knobs.CancelLate > 0 {
		for _, c := range s.Calls {
			c := c
			// (late means late, not never: once the run is in its fair phase the cancellation is due at once - a run that
			// has gone quiet would otherwise never reach the step at which it becomes due)
			if c != nil && c.Returned && !c.cancelled && (s.K.StepN >= c.RetStep+s.Plan.Knobs.CancelLate || s.Healing) {
				acts = append(acts, Action{Key: fmt.Sprintf("ctx/%d", c.N), Fire: func() {
					c.cancelled = true
					c.cancel()
				}})
			}
		}
	}
	// observers: a second client watches the transaction of a waiting request by id
	for _, i := range s.Plan.Knobs.Observers {
		i := i
		if s.obsStarted[i] || i >= len(s.Calls) || s.Calls[i] == nil || s.Calls[i].Returned || s.Calls[i].Cut {
			continue
		}
		var id configapi.TransactionID
		for idx, n := range s.Rec.TxCall {
			if n == i && s.Rec.Txs[idx] != nil {
				id = s.Rec.Txs[idx].ID
			}
		}
		if id == "" {
			continue
		}
		acts = append(acts, Action{Key: fmt.Sprintf("obs/%d", i), Task: fmt.Sprintf("obs/%d", i), Fire: func() {
			if s.obsStarted == nil {
				s.obsStarted = map[int]bool{}
			}
			s.obsStarted[i] = true
			s.K.Probe("observer-started")
			inc := s.Inc
			ctx, cancel := context.WithCancel(context.Background())
			s.obsCancels = append(s.obsCancels, cancel)
			st := &obsStream{ctx: ctx}
			go func() {
				defer func() { _ = recover() }()
				_ = inc.admin.WatchTransactions(&adminapi.WatchTransactionsRequest{ID: id}, st)
			}()
		}})
	}
	for _, c := range s.Probes {
		c := c
		if !c.Started {
			acts = append(acts, Action{Key: fmt.Sprintf("probe/%d", c.N), Task: fmt.Sprintf("probe/%d", c.N), Fire: func() { s.runCall(c) }})
			break
		}
	}
	return acts
}

func (s *Sys) startCall(i int, op *ClientOp, probe bool) *Call {
	c := &Call{N: i, Op: op, Probe: probe, done: make(chan struct{})}
	s.runCall(c)
	return c
}

func (s *Sys) runCall(c *Call) {
	inc := s.Inc
	c.Started = true
	c.Inc = inc.N
	c.StartStep = s.K.StepN
	ctx, cancel := context.WithCancel(metadata.NewIncomingContext(context.Background(),
		metadata.Pairs("preferred_username", fmt.Sprintf("c%d", c.N))))
	c.cancel = cancel
	op := c.Op
	go func() {
		defer func() {
			if p := recover(); p != nil {
				c.Err = fmt.Errorf("PANIC in handler: %v", p)
				s.K.Stat("handler-panic")
			}
			c.Returned = true
			c.RetStep = s.K.StepN
			if s.Rec != nil && !c.Probe {
				s.Rec.OnReturn(c)
			}
			close(c.done)
		}()
		switch op.Kind {
		case "set":
			c.SetResp, c.Err = inc.server.Set(ctx, BuildSetRequest(op))
			if c.SetResp != nil {
				for _, e := range c.SetResp.Extension {
					if r := e.GetRegisteredExt(); r != nil && r.Id == configapi.TransactionInfoExtensionID {
						ti := &configapi.TransactionInfo{}
						if ti.Unmarshal(r.Msg) == nil {
							c.TxIndex = uint64(ti.Index)
							c.TxID = string(ti.ID)
						}
					}
				}
			}
		case "rollback":
			idx := op.Raw
			if op.Of >= 0 && op.Of < len(s.Calls) && s.Calls[op.Of] != nil {
				idx = s.Calls[op.Of].TxIndex
				if idx == 0 {
					// the Set did not report an index (it failed or was cut): look the index up as an operator would
					idx = s.Rec.IndexOfCall(op.Of)
				}
			}
			c.RbResp, c.Err = inc.admin.RollbackTransaction(ctx, &adminapi.RollbackRequest{Index: configapi.Index(idx)})
			if c.RbResp != nil {
				c.TxIndex = uint64(c.RbResp.Index)
				c.TxID = string(c.RbResp.ID)
			}
		case "get":
			enc := gnmi.Encoding_PROTO
			if op.JSON {
				enc = gnmi.Encoding_JSON
			}
			req := &gnmi.GetRequest{Encoding: enc}
			switch {
			case len(op.Query) == 0:
				req.Prefix = &gnmi.Path{Target: op.Target}
			case op.Split > 0 && op.Split <= len(op.Query):
				req.Prefix = op.Query[:op.Split].ToGNMI(op.Target)
				if rest := op.Query[op.Split:]; len(rest) > 0 || op.EmptyPath {
					req.Path = []*gnmi.Path{rest.ToGNMI("")}
				}
			default:
				req.Path = []*gnmi.Path{op.Query.ToGNMI(op.Target)}
			}
			c.GetResp, c.Err = inc.server.Get(ctx, req)
		}
	}()
}

// fireFaults applies every planned fault whose trigger is due. Returns true if one fired.
func (s *Sys) fireFaults() bool {
	if s.noFault || s.Inc == nil {
		return false
	}
	fired := false
	for i := range s.Plan.Faults {
		f := &s.Plan.Faults[i]
		if f.fired {
			continue
		}
		due := false
		switch f.On {
		case "effect":
			due = s.Eff.N >= f.N
		case "step":
			due = s.K.StepN >= f.N
		case "write", "topo", "val":
			due = true // armed immediately: the runtime / the fake topo count their calls themselves
		case "devset":
			due = true // armed immediately: the device counts its Sets itself
		case "after-devset":
			// right after the device answered its N-th Set: the issuing reconcile is about to record the outcome
			if d := s.Devs[f.Target]; d != nil {
				d.mu.Lock()
				due = len(d.Log) >= f.N
				d.mu.Unlock()
			}
		case "after-write":
			// right after the N-th executed write of one kind (Target holds "<primitive>/<rpc>", e.g. proposals/insert: between
			// the creations of the proposals of one multi-target transaction)
			due = s.RT.KindCount[f.Target] >= f.N
		case "during-devset":
			// while the device's N-th (or a later) Set is in flight
			if d := s.Devs[f.Target]; d != nil {
				d.mu.Lock()
				due = d.NSets >= f.N && len(d.Log) < d.NSets
				d.mu.Unlock()
			}
		}
		if !due {
			continue
		}
		if !s.Inc.up && f.Kind != "op-unavail" && f.Kind != "op-acklost" && f.Kind != "dev-error" && f.Kind != "dev-drop" && f.Kind != "topo-unavail" && f.Kind != "topo-acklost" && f.Kind != "val-error" {
			continue
		}
		f.fired = true
		fired = true
		switch f.Kind {
		case "crash":
			s.K.Trace = append(s.K.Trace, "fault/crash")
			s.Crash()
			if err := s.Boot(); err != nil {
				s.Report("HARNESS", "boot", "restart", err.Error())
			}
		case "conn-down":
			if s.connUp[f.Target] {
				s.K.Trace = append(s.K.Trace, "fault/conn-down/"+f.Target)
				s.K.Stat("fault/conn-down")
				s.Inc.conns.Down(f.Target)
				delete(s.connUp, f.Target)
				s.Rec.OnConnFault(f.Target, "down")
			}
		case "conn-replace":
			if s.connUp[f.Target] {
				s.K.Trace = append(s.K.Trace, "fault/conn-replace/"+f.Target)
				s.K.Stat("fault/conn-replace")
				s.Inc.conns.Up(s.Devs[f.Target])
				s.Rec.OnConnFault(f.Target, "replace")
			}
		case "dev-restart":
			s.K.Trace = append(s.K.Trace, "fault/dev-restart/"+f.Target)
			s.K.Stat("fault/dev-restart-empty")
			s.Devs[f.Target].RestartEmpty()
			if s.connUp[f.Target] {
				s.Inc.conns.Down(f.Target)
				delete(s.connUp, f.Target)
			}
			s.Rec.OnConnFault(f.Target, "restart")
		case "dev-error":
			d := s.Devs[f.Target]
			b := f.Burst
			if b < 1 {
				b = 1
			}
			for j := 0; j < b; j++ {
				d.Faults[f.N+j] = DevFault{Kind: "code", Code: codes.Code(f.Code)}
			}
		case "dev-drop":
			s.Devs[f.Target].Faults[f.N] = DevFault{Kind: "apply-then-drop"}
		case "op-unavail", "op-acklost":
			n := f.N
			if f.On == "after-devset" || f.On == "during-devset" || f.On == "after-write" {
				// relative: the Burst-th Atomix write from now on
				n = s.RT.Writes + 1 + f.Burst
			}
			s.RT.OpFaults[n] = strings.TrimPrefix(f.Kind, "op-")
		case "val-error":
			if s.Plugin.ErrAt == nil {
				s.Plugin.ErrAt = map[int]bool{}
			}
			s.Plugin.ErrAt[f.N] = true
		case "topo-unavail", "topo-acklost":
			if s.Topo.Faults == nil {
				s.Topo.Faults = map[int]string{}
			}
			b := f.Burst
			if b < 1 {
				b = 1
			}
			for j := 0; j < b; j++ {
				s.Topo.Faults[f.N+j] = strings.TrimPrefix(f.Kind, "topo-")
			}
		case "stall":
			s.K.Trace = append(s.K.Trace, "fault/stall")
			s.K.Stat("fault/stall")
			time.Sleep(31 * time.Second)
		}
		synctest.Wait()
	}
	return fired
}

// promptCancels cancels the context of every returned call whose cancellation is not delayed by the plan. gRPC cancels a
// handler's context right after the handler returns; doing it after the window in which the handler returned (never
// inside it) keeps "event already queued for the watcher" and "context done" from racing.
func (s *Sys) promptCancels() {
	did := false
	for _, c := range append(append([]*Call{}, s.Calls...), s.Probes...) {
		if c != nil && c.Returned && !c.cancelled && (s.Plan.Knobs.CancelLate == 0 || c.Probe) {
			c.cancelled = true
			c.cancel()
			did = true
		}
	}
	if did {
		synctest.Wait()
	}
}

func (s *Sys) stepOnce() bool {
	ok := s.K.Step()
	if ok {
		if n := len(s.K.Trace); n > 0 && strings.HasPrefix(s.K.Trace[n-1], "op/transactions/get/tx") {
			// a handler's watch-replay read was served: had the controllers already moved the transaction on?
			name := strings.TrimPrefix(s.K.Trace[n-1], "op/transactions/get/")
			if i := strings.Index(name, "#"); i >= 0 {
				name = name[:i]
			}
			for _, tx := range s.Rec.Txs {
				if s.K.Name("tx", string(tx.ID)) == name && (tx.Status.State != configapi.TransactionStatus_PENDING || tx.Status.Phases.Initialize != nil) {
					s.K.Probe("c08-replay-past-pending")
					if TxFinal(tx) {
						s.K.Probe("c08-replay-already-final")
					}
				}
			}
		}
		synctest.Wait()
		s.promptCancels()
		if s.Rec != nil {
			s.Rec.AfterStep()
		}
	}
	return ok
}

// Run drives the scenario to its end: main phase (with faults), heal phase (faults off, all devices reachable), until
// nothing is enabled or the step cap is hit. Returns false if the cap was hit.
func (s *Sys) Run() bool {
	cap := s.Plan.Knobs.StepCap
	if cap == 0 {
		cap = 40000
	}
	mainCap := cap / 2
	heal := func() {
		s.Healing = true
		s.noFault = true
		s.Topo.Faults = nil
		s.Plugin.ErrAt = nil
		s.K.Fair = true
		s.K.Trace = append(s.K.Trace, "heal")
	}
	for s.K.StepN < cap {
		synctest.Wait()
		s.fireFaults()
		if !s.Healing && s.K.StepN >= mainCap {
			// the main phase is bounded: whatever is still going on must finish under a fair schedule without faults
			s.K.Probe("main-phase-cap")
			heal()
		}
		if !s.stepOnce() {
			if s.fireFaults() {
				continue
			}
			if !s.Healing {
				heal()
				continue
			}
			return true
		}
	}
	return false
}

// Settle drives the scheduler (faults off) until nothing is enabled; false if the budget is exhausted.
func (s *Sys) Settle(budget int) bool {
	for n := 0; n < budget; n++ {
		synctest.Wait()
		if !s.stepOnce() {
			return true
		}
	}
	return false
}

// AddProbe queues a harness-issued Get executed as an ordinary client call.
func (s *Sys) AddProbe(op ClientOp) *Call {
	c := &Call{N: len(s.Probes), Op: &op, Probe: true, done: make(chan struct{})}
	s.Probes = append(s.Probes, c)
	return c
}

// Stop tears everything down (end of run).
func (s *Sys) Stop() {
	if s.stopped {
		return
	}
	s.stopped = true
	for _, c := range s.obsCancels {
		c()
	}
	for _, c := range append(append([]*Call{}, s.Calls...), s.Probes...) {
		if c != nil && c.cancel != nil {
			c.cancel()
		}
	}
	synctest.Wait()
	for _, inc := range s.Incs {
		inc.cancel()
		inc.conns.Close()
		inc.client.Close()
	}
	s.RT.Stop()
	for _, d := range s.Devs {
		d.Stop()
	}
	synctest.Wait()
}

// grpcCode extracts the gRPC code a client would see.
func grpcCode(err error) codes.Code {
	if err == nil {
		return codes.OK
	}
	if st, ok := status.FromError(err); ok {
		return st.Code()
	}
	return codes.Unknown
}

// obsStream is the server side of an observer's admin WatchTransactions call: it accepts every event.
type obsStream struct {
	ctx context.Context
	n   int
}

func (o *obsStream) Send(*adminapi.WatchTransactionsResponse) error { o.n++; return nil }
func (o *obsStream) SetHeader(metadata.MD) error                    { return nil }
func (o *obsStream) SendHeader(metadata.MD) error                   { return nil }
func (o *obsStream) SetTrailer(metadata.MD)                         {}
func (o *obsStream) Context() context.Context                       { return o.ctx }
func (o *obsStream) SendMsg(m any) error                            { return nil }
func (o *obsStream) RecvMsg(m any) error                            { return nil }
