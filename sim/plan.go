package sim

// Plans: everything a run depends on. A run is a pure function of (Plan, code).

import (
	"encoding/json"
	"fmt"
	"math/rand"
	"sort"
)

// ClientOp is one northbound request of the scenario.
type ClientOp struct {
	Kind    string           `json:"kind"`              // set | rollback | get
	Async   bool             `json:"async,omitempty"`   // set: asynchronous strategy
	Serial  bool             `json:"serial,omitempty"`  // set: serializable isolation
	Targets map[string][]MOp `json:"targets,omitempty"` // set: operations per target
	Of      int              `json:"of,omitempty"`      // rollback: scenario position of the Set to roll back (-1: use RawIndex)
	Raw     uint64           `json:"raw,omitempty"`     // rollback: explicit index
	WaitFor int              `json:"wait"`              // start only after this scenario op returned (-1: none)
	Prefix  bool             `json:"prefix,omitempty"`  // set: put the target in the prefix (single-target sets only)
	JSON    bool             `json:"json,omitempty"`    // get: JSON encoding
	Query   Path             `json:"query,omitempty"`   // get: path
	Target  string           `json:"target,omitempty"`  // get
	// get: the first Split elements of the query travel in the request prefix, the rest in the path; when nothing is left
	// for the path the request carries no path at all, or (EmptyPath) one path without elements
	Split     int  `json:"split,omitempty"`
	EmptyPath bool `json:"emptyPath,omitempty"`
}

// Fault is one planned fault with its trigger.
type Fault struct {
	Kind   string `json:"kind"`             // crash | conn-down | conn-up | dev-restart | dev-error | dev-drop | op-unavail | op-acklost | stall | conn-replace
	On     string `json:"on"`               // effect | step | devset | write | after-devset | during-devset | after-write
	N      int    `json:"n"`                // trigger count
	Target string `json:"target,omitempty"` // device faults
	Code   int    `json:"code,omitempty"`   // dev-error: gRPC code
	Burst  int    `json:"burst,omitempty"`  // dev-error: number of consecutive Sets affected
	fired  bool
}

// Knobs is the swarm configuration of a run.
type Knobs struct {
	Targets    []string        `json:"targets"`
	MapSeed    uint64          `json:"mapSeed"`              // 0 = canonical map order
	ConnLate   map[string]bool `json:"connLate,omitempty"`   // device connects only when nothing else can run
	NoDevice   map[string]bool `json:"noDevice,omitempty"`   // device never connects before the heal phase
	CancelLate int             `json:"cancelLate,omitempty"` // steps between handler return and context cancellation
	Persistent map[string]bool `json:"persistent,omitempty"`
	// ModelB: these targets are of a second model (other type or other version, same schema) whose plugin rejects
	// PoisonValueB and accepts PoisonValue: [type, version]
	ModelB map[string][2]string `json:"modelB,omitempty"`
	// ValidateCaps: the topo Configurable asks for a capability check before every apply (the device reports the plugin's
	// models plus one more)
	ValidateCaps map[string]bool `json:"validateCaps,omitempty"`
	StepCap    int             `json:"stepCap"`
	RejectDev  bool            `json:"rejectDev,omitempty"` // devices refuse Sets containing DevRejectValue
	// Observers: scenario positions of Sets / rollbacks whose transaction a second client watches by id (admin
	// WatchTransactions) as soon as it is in the log and while the request is still waiting
	Observers []int `json:"observers,omitempty"`
	// Resync (C04, C10): resolved by the runner - a fault placed at one of the pushes of a re-synchronisation
	Resync *ResyncSpec `json:"resync,omitempty"`
	// SharedChannel: see Device.Shared
	SharedChannel bool `json:"sharedChannel,omitempty"`
	// Align (C05): resolved by the runner - the value of the marked leaf is sized so that a validated document is an
	// exact multiple of the plugin chunk size (or one byte off)
	Align *AlignSpec `json:"align,omitempty"`
	// LateAck: "<prim>/<op>/<key>" prefixes of Atomix calls whose answer is scheduled separately from their effect
	LateAck []string `json:"lateAck,omitempty"`
}

// AlignSpec asks the C05 runner to size the leaf whose value starts with AlignMarker.
type AlignSpec struct {
	Pick int `json:"pick"` // which of the documents containing the marker (modulo their number)
	Eps  int `json:"eps"`  // offset from the exact multiple
	Mult int `json:"mult"` // 0: the next multiple of the chunk size, 1: one further
}

// ResyncSpec asks the runner to execute the plan once, find the southbound Sets the configuration controller issued to
// Target (the pushes of its re-synchronisations) and place a fault of Kind at the Pick-th last of them: while it is in
// flight (On = during-devset) or right after the device answered it (after-devset).
type ResyncSpec struct {
	Target string `json:"target"`
	Pick   int    `json:"pick"`
	Kind   string `json:"kind"`
	On     string `json:"on"`
}

// AlignMarker starts the value of the leaf an AlignSpec sizes.
const AlignMarker = "ALIGN-"

// Plan is a complete run description.
type Plan struct {
	Property string     `json:"property"`
	Profile  string     `json:"profile"`
	Seed     uint64     `json:"seed"`
	Knobs    Knobs      `json:"knobs"`
	Scenario []ClientOp `json:"scenario"`
	Faults   []Fault    `json:"faults"`
	Probes   []ClientOp `json:"probes,omitempty"` // Get queries issued at quiescence
	Store    *StorePlan `json:"store,omitempty"`  // C15: store-level scenario
	Sub      *SubPlan   `json:"sub,omitempty"`    // C19: subscribe-stream scenario
	V3       *V3Plan    `json:"v3,omitempty"`     // C20: v3 workload
	Sweep    *SweepSpec `json:"sweep,omitempty"`  // C07: fault position relative to the crash-free run (resolved by the runner)
	Sched    Sched      `json:"sched"`
}

// Clone deep-copies a plan through JSON.
func (p *Plan) Clone() *Plan {
	b, _ := json.Marshal(p)
	q := &Plan{}
	_ = json.Unmarshal(b, q)
	return q
}

// DevRejectValue makes a device refuse a Set (content rule) when RejectDev is on.
const DevRejectValue = "DEVNO"

// ---------- generators ----------

// Gen wraps the PRNG used for plan generation (never consulted during a run).
type Gen struct {
	R    *rand.Rand
	vseq int
	// focus mode: a share of all drawn paths lies on one deep leaf path (its ancestors for deletes, the leaf and its
	// siblings for updates), so that histories pile deletes, re-creations and tombstones onto one sub-tree
	focus    Path
	focusTyp string
	focusPct int
}

// SetFocus switches focus mode on: pct percent of the drawn paths lie on one leaf path of depth >= 3.
func (g *Gen) SetFocus(pct int) {
	if g.focus != nil {
		g.focusPct = pct
		return
	}
	for {
		p, typ := g.RandLeafPath(false)
		if len(p) >= 3 {
			g.focus, g.focusTyp, g.focusPct = p, typ, pct
			return
		}
	}
}

// NewGen seeds a generator.
func NewGen(seed uint64) *Gen { return &Gen{R: rand.New(rand.NewSource(int64(seed)))} }

func (g *Gen) pick(n int) int { return g.R.Intn(n) }
func (g *Gen) chance(num, den int) bool {
	return g.R.Intn(den) < num
}

var keyVals = []string{"a", "ab", "b", "x1"}
var key2Vals = []string{"1", "10", "2"}

// RandLeafPath draws a concrete leaf path from the schema (list keys from a small alphabet where one value is a textual
// prefix of another).
func (g *Gen) RandLeafPath(allowKey bool) (Path, string) {
	leaves := SchemaLeaves()
	for {
		l := leaves[g.pick(len(leaves))]
		if l.IsKey && !allowKey {
			continue
		}
		if l.Leaf.Name == "big" {
			continue
		}
		return g.concretize(l.Elems), l.Leaf.Type
	}
}

func (g *Gen) concretize(elems []*SNode) Path {
	var p Path
	for _, e := range elems {
		pe := PElem{Name: e.Name}
		if e.Kind == 1 {
			for _, k := range e.Keys {
				kc := findChild(e, k)
				if kc.Type == "s" {
					pe.Keys = append(pe.Keys, [2]string{k, keyVals[g.pick(len(keyVals))]})
				} else {
					pe.Keys = append(pe.Keys, [2]string{k, key2Vals[g.pick(len(key2Vals))]})
				}
			}
			sort.Slice(pe.Keys, func(i, j int) bool { return pe.Keys[i][0] < pe.Keys[j][0] })
		}
		p = append(p, pe)
	}
	return p
}

// RandValue draws a unique value of the schema type (every written value is unique so each read is attributable).
func (g *Gen) RandValue(typ string, p Path) string {
	g.vseq++
	// key leaves must equal their key
	if len(p) >= 2 {
		parent := p[len(p)-2]
		for _, kv := range parent.Keys {
			if kv[0] == p[len(p)-1].Name {
				return typ[:1] + ":" + kv[1]
			}
		}
	}
	switch typ {
	case "s":
		return fmt.Sprintf("s:v%d", g.vseq)
	case "b":
		return fmt.Sprintf("b:%v", g.vseq%2 == 0)
	case "u8":
		return fmt.Sprintf("u:%d", g.vseq%250+1)
	case "u16":
		return fmt.Sprintf("u:%d", g.vseq%60000+1)
	case "u32":
		return fmt.Sprintf("u:%d", 100000+g.vseq)
	case "u64":
		return fmt.Sprintf("u:%d", uint64(1)<<40+uint64(g.vseq))
	case "i32":
		return fmt.Sprintf("i:%d", -g.vseq)
	}
	return "s:x"
}

// RandDeletePath draws a path to delete: a leaf, a container, a list entry or a nested node.
func (g *Gen) RandDeletePath() Path {
	p, _ := g.RandLeafPath(false)
	// cut at a random depth >= 1 (never the root); keep list keys of kept elements
	cut := 1 + g.pick(len(p))
	q := append(Path{}, p[:cut]...)
	if len(q[cut-1].Keys) > 0 && g.chance(2, 5) {
		// the list node itself, without keys: every entry of the list
		q[cut-1] = PElem{Name: q[cut-1].Name}
	}
	return q
}

// RandOps draws 1..max operations for one target.
func (g *Gen) RandOps(max int, delPct int, poison bool) []MOp {
	n := 1 + g.pick(max)
	var ops []MOp
	used := map[string]bool{}
	for i := 0; i < n; i++ {
		if g.focusPct > 0 && g.R.Intn(100) < g.focusPct {
			// on the focus path: delete one of its ancestors (or the leaf), or write the leaf
			if g.R.Intn(100) < delPct {
				q := append(Path{}, g.focus[:1+g.pick(len(g.focus))]...)
				if !used[q.K()] {
					used[q.K()] = true
					ops = append(ops, MOp{Del: true, P: q})
				}
			} else if !used[g.focus.K()] {
				used[g.focus.K()] = true
				ops = append(ops, MOp{P: append(Path{}, g.focus...), V: g.RandValue(g.focusTyp, g.focus)})
			}
			continue
		}
		if g.R.Intn(100) < delPct {
			q := g.RandDeletePath()
			if used[q.K()] {
				continue
			}
			used[q.K()] = true
			ops = append(ops, MOp{Del: true, P: q})
		} else {
			p, typ := g.RandLeafPath(true)
			if used[p.K()] {
				continue
			}
			used[p.K()] = true
			ops = append(ops, MOp{P: p, V: g.RandValue(typ, p)})
		}
	}
	if len(ops) == 0 {
		p, typ := g.RandLeafPath(false)
		ops = append(ops, MOp{P: p, V: g.RandValue(typ, p)})
	}
	if poison {
		// a poisoned string leaf (content-based plugin verdict: invalid)
		p := Path{{Name: "cont1a"}, {Name: "leaf1a"}}
		g.vseq++
		ops = append(ops, MOp{P: p, V: fmt.Sprintf("s:%s%d", PoisonValue, g.vseq)})
		// drop a duplicate of that path
		var out []MOp
		seen := false
		for i := len(ops) - 1; i >= 0; i-- {
			if ops[i].P.K() == p.K() {
				if seen {
					continue
				}
				seen = true
			}
			out = append([]MOp{ops[i]}, out...)
		}
		ops = out
	}
	// the same path never appears both as delete and update in one request (statement does not settle it)
	dels := map[string]bool{}
	for _, o := range ops {
		if o.Del {
			dels[o.P.K()] = true
		}
	}
	var out []MOp
	for _, o := range ops {
		if !o.Del && dels[o.P.K()] {
			continue
		}
		out = append(out, o)
	}
	return out
}
