package sim

// Observation helpers: associate client calls with logged transactions, build the model's view of the log, decode Get
// responses into Trees.

import (
	"fmt"
	"sort"

	configapi "github.com/onosproject/onos-api/go/onos/config/v2"
	"github.com/openconfig/gnmi/proto/gnmi"
)

// MapCalls associates scenario calls with log indexes: the append of a transaction is a parked Atomix call attributed to
// the client task ("cli/<n>") whose handler issued it.
func (s *Sys) MapCalls() {
	s.callIndex = map[int]uint64{}
	s.indexCall = map[uint64]int{}
	for idx, n := range s.Rec.TxCall {
		s.callIndex[n] = idx
		s.indexCall[idx] = n
	}
}

// ModelLog builds the model's transactions from the durable log and the scenario.
func (s *Sys) ModelLog() []*MTx {
	s.MapCalls()
	var out []*MTx
	for i := uint64(1); i <= s.Rec.MaxTx; i++ {
		tx := s.Rec.Txs[i]
		if tx == nil {
			continue
		}
		m := &MTx{Index: i, Call: -1}
		if ci, ok := s.indexCall[i]; ok {
			m.Call = ci
		}
		if rb := tx.GetRollback(); rb != nil {
			m.Kind = "rollback"
			m.RollbackOf = uint64(rb.RollbackIndex)
		} else {
			m.Kind = "change"
			if m.Call >= 0 {
				m.Ops = s.Calls[m.Call].Op.Targets
			} else {
				m.Ops = map[string][]MOp{}
			}
		}
		out = append(out, m)
	}
	return out
}

// TreeFromProtoGet decodes a PROTO-encoded GetResponse into a Tree. An update with a nil value (the handler's "nothing
// found" answer) contributes nothing.
func TreeFromProtoGet(resp *gnmi.GetResponse) (Tree, error) {
	t := Tree{}
	if resp == nil {
		return t, nil
	}
	for _, n := range resp.Notification {
		for _, u := range n.Update {
			if u.Val == nil {
				continue
			}
			p := PathFromGNMI(u.Path)
			if _, dup := t[p.K()]; dup {
				return nil, fmt.Errorf("leaf %s returned twice", p)
			}
			t.Set(p, GnmiValueCanon(u.Val))
		}
	}
	return t, nil
}

// TreeFromJSONGet decodes a JSON-encoded GetResponse into a Tree (flattened by the independent flattener).
func TreeFromJSONGet(resp *gnmi.GetResponse) (Tree, error) {
	t := Tree{}
	if resp == nil {
		return t, nil
	}
	for _, n := range resp.Notification {
		for _, u := range n.Update {
			if u.Val == nil {
				continue
			}
			j := u.Val.GetJsonVal()
			if j == nil {
				return nil, fmt.Errorf("JSON get returned %T", u.Val.Value)
			}
			ft, err := FlattenJSON(j, true)
			if err != nil {
				return nil, err
			}
			for k, l := range ft {
				t[k] = l
			}
		}
	}
	return t, nil
}

// StoredTree decodes the committed value map of a target (monitor view) using the repository-independent path parser of
// the model plugin format: paths are taken from the gNMI form the system itself returns, so this helper is used only
// where a Get is not possible (mid-run monitors). It returns live (non-deleted) entries keyed by their textual path.
func (r *Recorder) StoredLive(target string) map[string]*configapi.PathValue {
	out := map[string]*configapi.PathValue{}
	for k, pv := range r.Vals[CfgID(target)] {
		if !pv.Deleted {
			out[k] = pv
		}
	}
	return out
}

// ParseTextPath parses the textual path form used as key of the stored value maps ("/a/b[k=v][k2=v2]/c") into a
// structured path. Written independently of /repo's parser; escapes are not used by the synthetic model.
func ParseTextPath(t string) (Path, error) {
	var out Path
	i := 0
	for i < len(t) {
		if t[i] != '/' {
			return nil, fmt.Errorf("path %q: expected '/' at %d", t, i)
		}
		i++
		j := i
		for j < len(t) && t[j] != '/' && t[j] != '[' {
			j++
		}
		pe := PElem{Name: t[i:j]}
		if pe.Name == "" {
			return nil, fmt.Errorf("path %q: empty element", t)
		}
		for j < len(t) && t[j] == '[' {
			k := j + 1
			for k < len(t) && t[k] != '=' {
				k++
			}
			e := k + 1
			for e < len(t) && t[e] != ']' {
				e++
			}
			if k >= len(t) || e >= len(t) {
				return nil, fmt.Errorf("path %q: bad key", t)
			}
			pe.Keys = append(pe.Keys, [2]string{t[j+1 : k], t[k+1 : e]})
			j = e + 1
		}
		sort.Slice(pe.Keys, func(a, b int) bool { return pe.Keys[a][0] < pe.Keys[b][0] })
		out = append(out, pe)
		i = j
	}
	return out, nil
}

// TypedValueCanon renders a stored typed value canonically (same alphabet as GnmiValueCanon).
func TypedValueCanon(v *configapi.TypedValue) string {
	switch v.Type {
	case configapi.ValueType_STRING:
		return "s:" + string(v.Bytes)
	case configapi.ValueType_BOOL:
		return fmt.Sprintf("b:%v", (*configapi.TypedBool)(v).Bool())
	case configapi.ValueType_UINT:
		return fmt.Sprintf("u:%d", (*configapi.TypedUint)(v).Uint())
	case configapi.ValueType_INT:
		return fmt.Sprintf("i:%d", (*configapi.TypedInt)(v).Int())
	case configapi.ValueType_EMPTY:
		return "empty"
	}
	return fmt.Sprintf("?%s:%x", v.Type, v.Bytes)
}

// StoredTree decodes the live (non-deleted, not beneath a tombstone at element boundaries) entries of a stored value map.
func StoredTree(vals map[string]*configapi.PathValue) (Tree, error) {
	t := Tree{}
	var tombs []Path
	for k, pv := range vals {
		if pv.Deleted {
			p, err := ParseTextPath(k)
			if err != nil {
				return nil, err
			}
			tombs = append(tombs, p)
		}
	}
	for k, pv := range vals {
		if pv.Deleted {
			continue
		}
		p, err := ParseTextPath(k)
		if err != nil {
			return nil, err
		}
		hidden := false
		for _, tb := range tombs {
			if p.HasPrefix(tb) {
				hidden = true
			}
		}
		if !hidden {
			t.Set(p, TypedValueCanon(&pv.Value))
		}
	}
	return t, nil
}

// CompareTargets issues whole-tree Gets (PROTO and JSON) for every target and compares them with the model.
func (s *Sys) CompareTargets(mod *Model, prop, oracle string) {
	var ops []ClientOp
	for _, t := range s.Plan.Knobs.Targets {
		ops = append(ops, ClientOp{Kind: "get", Target: t}, ClientOp{Kind: "get", Target: t, JSON: true})
	}
	for _, c := range s.RunProbes(ops) {
		cfg := mod.Cfg[c.Op.Target]
		if cfg == nil {
			cfg = Tree{}
		}
		if shape, msg := CompareGet(c, cfg); shape != "" {
			s.Report(prop, oracle, shape, msg)
			return
		}
	}
}

// PredictedFold folds the log with the model's own verdicts.
// A transaction one of whose validations met an injected plugin transport fault has no predictable verdict: the
// implementation treats "no answer" as "not accepted" (FAILED, INVALID) - unless it could not record that either (a store
// fault on the status write) and asks the plugin again, which may then accept. So the prediction follows the records for
// exactly those transactions, except that a candidate the plugin's rule rejects must fail in any case. (The first version
// predicted INVALID outright: a false alarm in 2 of 25 000 thorough runs, where a failed status write sent the validation
// round again.) What stays sharp: nothing is committed without an accepted document (C05's step monitor).
func (s *Sys) PredictedFold() *Model {
	if s.Plugin == nil || len(s.Plugin.ErrTx) == 0 {
		return Fold(s.ModelLog(), nil)
	}
	return Fold(s.ModelLog(), func(tx *MTx, predicted bool) bool {
		if s.Plugin.ErrTx[tx.Index] && predicted { // changes and rollbacks alike: both are validated
			if committedByRecord(s.Rec.Txs[tx.Index]) {
				return true
			}
			if tx.Fail == "" {
				tx.Fail = "INVALID"
			}
			return false
		}
		return predicted
	})
}
