package sim

// Fake onos-topo: durable objects with revisions; per-incarnation client implementing topo.Store; watch with replay and
// FIFO delivery.

import (
	"context"
	"fmt"
	"sort"
	"strings"
	"sync"

	topoapi "github.com/onosproject/onos-api/go/onos/topo"
	"github.com/onosproject/onos-lib-go/pkg/errors"
)

type twatch struct {
	fifo []topoapi.Event
	pump chan topoapi.Event
	name string
	dead bool
}

// Topo is the durable topology state.
type Topo struct {
	k      *Kernel
	mu     sync.Mutex
	Objs   map[topoapi.ID]*topoapi.Object
	Rev    uint64
	ws     []*twatch
	Writes int
	Eff    *Effects
	// Calls counts the calls issued by reconcile tasks (at execution); Faults maps such an ordinal to "unavail" (the call
	// fails Unavailable without effect) or "acklost" (a write takes effect, its caller sees Unavailable). Calls of
	// northbound handlers and of watcher goroutines are not counted and never fail: a request refused before it is logged
	// and an event a watcher drops are outside every claimed statement.
	Calls  int
	Faults map[int]string
	// OnWrite is called after each durable change with the event.
	OnWrite func(ev topoapi.Event, task string)
}

// NewTopo creates the fake topology service.
func NewTopo(k *Kernel, eff *Effects) *Topo {
	t := &Topo{k: k, Objs: map[topoapi.ID]*topoapi.Object{}, Eff: eff}
	k.AddSource("topo-events", t.actions)
	return t
}

func (t *Topo) put(o *topoapi.Object, et topoapi.EventType) {
	t.Rev++
	o.Revision = topoapi.Revision(t.Rev)
	t.Objs[o.ID] = o
	t.emit(topoapi.Event{Type: et, Object: *o})
}

func (t *Topo) emit(e topoapi.Event) {
	t.mu.Lock()
	for _, w := range t.ws {
		if !w.dead {
			w.fifo = append(w.fifo, e)
		}
	}
	t.mu.Unlock()
	if t.OnWrite != nil {
		t.OnWrite(e, t.k.Active)
	}
}

// fault is called inside a parked topo call, on the scheduler goroutine: it returns the fault that hits this call, if any.
func (t *Topo) fault() string {
	if !strings.HasPrefix(t.k.Active, "rec/") {
		return ""
	}
	t.Calls++
	f := t.Faults[t.Calls]
	if f != "" {
		delete(t.Faults, t.Calls)
		t.k.Stat("fault/topo-" + f)
	}
	return f
}

var errTopoInjected = errors.NewUnavailable("topo: injected unavailable")

// AddTarget pre-creates a configurable target entity (setup, not a scheduled effect).
func (t *Topo) AddTarget(id, typ, ver string, persistent bool, validateCaps ...bool) {
	e := &topoapi.Object{ID: topoapi.ID(id), Type: topoapi.Object_ENTITY, Obj: &topoapi.Object_Entity{Entity: &topoapi.Entity{KindID: "devicesim"}}}
	_ = e.SetAspect(&topoapi.Configurable{Type: typ, Version: ver, Target: id, Address: id + ":1", Persistent: persistent, ValidateCapabilities: len(validateCaps) > 0 && validateCaps[0]})
	t.put(e, topoapi.EventType_ADDED)
}

// AddNode pre-creates the onos-config node entity.
func (t *Topo) AddNode(id topoapi.ID) {
	e := &topoapi.Object{ID: id, Type: topoapi.Object_ENTITY, Obj: &topoapi.Object_Entity{Entity: &topoapi.Entity{KindID: topoapi.ONOS_CONFIG}}}
	t.put(e, topoapi.EventType_ADDED)
}

func (t *Topo) cname(id topoapi.ID) string {
	s := string(id)
	if strings.HasPrefix(s, "uuid:") {
		return t.k.Name("conn", s)
	}
	return s
}

// Relations returns the CONTROLS relations targeting the given entity (monitor use; scheduler goroutine only).
func (t *Topo) Relations(target string) []string {
	var out []string
	for id, o := range t.Objs {
		if r := o.GetRelation(); r != nil && string(r.TgtEntityID) == target && r.KindID == topoapi.CONTROLS {
			out = append(out, string(id))
		}
	}
	sort.Strings(out)
	return out
}

func (t *Topo) actions() []Action {
	t.mu.Lock()
	defer t.mu.Unlock()
	var acts []Action
	for _, w := range t.ws {
		w := w
		if len(w.fifo) > 0 && !w.dead {
			acts = append(acts, Action{Key: "ev/" + w.name, Fire: func() {
				t.mu.Lock()
				if w.dead || len(w.fifo) == 0 {
					t.mu.Unlock()
					return
				}
				e := w.fifo[0]
				w.fifo = w.fifo[1:]
				t.mu.Unlock()
				select {
				case w.pump <- e:
				default:
					t.k.Stat("overflow/" + w.name)
				}
			}})
		}
	}
	return acts
}

// PendingEvents reports undelivered events.
func (t *Topo) PendingEvents() int {
	t.mu.Lock()
	defer t.mu.Unlock()
	n := 0
	for _, w := range t.ws {
		if !w.dead {
			n += len(w.fifo)
		}
	}
	return n
}

// TopoClient is one incarnation's handle; implements topo.Store.
type TopoClient struct {
	t   *Topo
	inc context.Context
}

// Client returns a handle whose calls are withdrawn when inc ends.
func (t *Topo) Client(inc context.Context) *TopoClient { return &TopoClient{t: t, inc: inc} }

var errGone = errors.NewUnavailable("topo: connection closed")

func (c *TopoClient) Create(ctx context.Context, o *topoapi.Object) (err error) {
	t := c.t
	if !t.k.Park("topo/create/"+t.cname(o.ID), func() {
		f := t.fault()
		if f == "unavail" {
			err = errTopoInjected
			return
		}
		if f == "acklost" {
			defer func() { err = errTopoInjected }()
		}
		if _, ok := t.Objs[o.ID]; ok {
			err = errors.NewAlreadyExists("object %s exists", o.ID)
			return
		}
		t.Writes++
		if t.Eff != nil {
			t.Eff.Add("topo create " + t.cname(o.ID))
		}
		cp := *o
		t.put(&cp, topoapi.EventType_ADDED)
	}, ctx, c.inc) {
		return errGone
	}
	return
}

func (c *TopoClient) Update(ctx context.Context, o *topoapi.Object) (err error) {
	t := c.t
	if !t.k.Park("topo/update/"+t.cname(o.ID), func() {
		f := t.fault()
		if f == "unavail" {
			err = errTopoInjected
			return
		}
		if f == "acklost" {
			defer func() { err = errTopoInjected }()
		}
		x, ok := t.Objs[o.ID]
		if !ok {
			err = errors.NewNotFound("object %s not found", o.ID)
			return
		}
		if o.Revision != 0 && o.Revision != x.Revision {
			err = errors.NewConflict("revision mismatch")
			return
		}
		t.Writes++
		if t.Eff != nil {
			t.Eff.Add("topo update " + t.cname(o.ID))
		}
		cp := *o
		t.put(&cp, topoapi.EventType_UPDATED)
	}, ctx, c.inc) {
		return errGone
	}
	return
}

func (c *TopoClient) Get(ctx context.Context, id topoapi.ID) (o *topoapi.Object, err error) {
	t := c.t
	if !t.k.Park("topo/get/"+t.cname(id), func() {
		if t.fault() != "" {
			err = errTopoInjected
			return
		}
		x, ok := t.Objs[id]
		if !ok {
			err = errors.NewNotFound("object %s not found", id)
			return
		}
		cp := *x
		o = &cp
	}, ctx, c.inc) {
		return nil, errGone
	}
	return
}

func matchFilters(o *topoapi.Object, f *topoapi.Filters) bool {
	if f == nil {
		return true
	}
	if f.RelationFilter != nil {
		r := o.GetRelation()
		if r == nil || string(r.KindID) != f.RelationFilter.RelationKind || string(r.SrcEntityID) != f.RelationFilter.SrcId {
			return false
		}
	}
	if len(f.ObjectTypes) > 0 {
		ok := false
		for _, ot := range f.ObjectTypes {
			if ot == o.Type {
				ok = true
			}
		}
		if !ok {
			return false
		}
	}
	for _, a := range f.WithAspects {
		if _, ok := o.Aspects[a]; !ok {
			return false
		}
	}
	return true
}

func (c *TopoClient) List(ctx context.Context, f *topoapi.Filters) (out []topoapi.Object, err error) {
	t := c.t
	if !t.k.Park("topo/list", func() {
		if t.fault() != "" {
			err = errTopoInjected
			return
		}
		ids := make([]string, 0, len(t.Objs))
		for id := range t.Objs {
			ids = append(ids, string(id))
		}
		sort.Strings(ids)
		for _, id := range ids {
			o := t.Objs[topoapi.ID(id)]
			if matchFilters(o, f) {
				out = append(out, *o)
			}
		}
	}, ctx, c.inc) {
		return nil, errGone
	}
	return
}

func (c *TopoClient) Delete(ctx context.Context, o *topoapi.Object) (err error) {
	t := c.t
	if !t.k.Park("topo/delete/"+t.cname(o.ID), func() {
		f := t.fault()
		if f == "unavail" {
			err = errTopoInjected
			return
		}
		if f == "acklost" {
			defer func() { err = errTopoInjected }()
		}
		x, ok := t.Objs[o.ID]
		if !ok {
			err = errors.NewNotFound("object %s not found", o.ID)
			return
		}
		t.Writes++
		if t.Eff != nil {
			t.Eff.Add("topo delete " + t.cname(o.ID))
		}
		delete(t.Objs, o.ID)
		t.emit(topoapi.Event{Type: topoapi.EventType_REMOVED, Object: *x})
	}, ctx, c.inc) {
		return errGone
	}
	return
}

func (c *TopoClient) Watch(ctx context.Context, ch chan<- topoapi.Event, f *topoapi.Filters) error {
	t := c.t
	w := &twatch{pump: make(chan topoapi.Event, 1<<14)}
	if !t.k.Park("topo/watch", func() {
		ids := make([]string, 0, len(t.Objs))
		for id := range t.Objs {
			ids = append(ids, string(id))
		}
		sort.Strings(ids)
		for _, id := range ids {
			w.fifo = append(w.fifo, topoapi.Event{Type: topoapi.EventType_NONE, Object: *t.Objs[topoapi.ID(id)]})
		}
		t.mu.Lock()
		w.name = fmt.Sprintf("topo/%d", len(t.ws)+1)
		t.ws = append(t.ws, w)
		t.mu.Unlock()
	}, ctx, c.inc) {
		return errGone
	}
	go func() {
		defer close(ch)
		defer func() { t.mu.Lock(); w.dead = true; w.fifo = nil; t.mu.Unlock() }()
		for {
			select {
			case e := <-w.pump:
				select {
				case ch <- e:
				case <-ctx.Done():
					return
				case <-c.inc.Done():
					return
				}
			case <-ctx.Done():
				return
			case <-c.inc.Done():
				return
			}
		}
	}()
	return nil
}
