package sim

// C20 — v3 (per-target) transaction protocol: real v3 transaction / configuration / mastership reconcilers and watchers on
// the real v3 stores over the fake Atomix; the workload plays the (non-existent) v3 northbound: it creates the
// Configuration record, appends changes and requests rollbacks on the store. The TLA+ Order / Consistency predicates of
// spec/Config.tla are evaluated over a history reconstructed from record diffs after every step; Termination at quiescence.

import (
	"context"
	"fmt"
	"google.golang.org/grpc/codes"
	"math/rand"
	"os"
	"runtime/debug"
	"sort"
	"strings"
	"testing"
	"testing/synctest"
	"time"

	"github.com/google/uuid"
	adminapi "github.com/onosproject/onos-api/go/onos/config/admin"
	configv3 "github.com/onosproject/onos-api/go/onos/config/v3"
	connctl "github.com/onosproject/onos-config/pkg/controller/connection"
	ctlutils "github.com/onosproject/onos-config/pkg/controller/utils"
	cfgctl3 "github.com/onosproject/onos-config/pkg/controller/v3/configuration"
	msctl3 "github.com/onosproject/onos-config/pkg/controller/v3/mastership"
	txctl3 "github.com/onosproject/onos-config/pkg/controller/v3/transaction"
	"github.com/onosproject/onos-config/pkg/pluginregistry"
	cfgstore3 "github.com/onosproject/onos-config/pkg/store/v3/configuration"
	txstore3 "github.com/onosproject/onos-config/pkg/store/v3/transaction"
	"github.com/onosproject/onos-config/pkg/verifrt"
	"github.com/onosproject/onos-lib-go/pkg/controller"
	"github.com/onosproject/onos-lib-go/pkg/errors"
)

// V3Op is one workload action of the v3 scenario.
type V3Op struct {
	Kind   string `json:"kind"` // append | rollback
	Ops    []MOp  `json:"ops,omitempty"`
	Of     int    `json:"of,omitempty"` // rollback: 1-based log index
	Poison bool   `json:"poison,omitempty"`
	// WaitApplied (rollback): the request is made only once the change has been applied (otherwise it is made whenever the
	// scheduler picks it, and dropped if the change is not committed yet)
	WaitApplied bool `json:"waitApplied,omitempty"`
}

// V3Plan is the v3sim part of a plan.
type V3Plan struct {
	// RefuseRollback (resolved by the runner): the plan is run once to find the Set with which a rolled-back transaction
	// applies its rollback (the second Set its reconciles issue); the device then definitely refuses that Set and the
	// Burst-th store write after the answer fails (Kind op-unavail) or loses its acknowledgement (op-acklost)
	RefuseRollback *V3Refuse `json:"refuseRollback,omitempty"`
	// WaitCommitted: rollback requests wait until the change they name is committed (or has failed to)
	WaitCommitted bool `json:"waitCommitted,omitempty"`
	Ops            []V3Op    `json:"ops"`
	Seed           bool      `json:"seed"` // the Configuration record is created with one initial committed value
}

// V3Refuse: see V3Plan.RefuseRollback.
type V3Refuse struct {
	Pick  int    `json:"pick"`
	Code  int    `json:"code"`
	Kind  string `json:"kind"` // "" | op-unavail | op-acklost
	Burst int    `json:"burst"`
}

type v3Event struct {
	Phase  string // Change | Rollback
	Event  string // Commit | Apply
	Index  uint64
	Status string
	Step   int
}

type v3inc struct {
	ctx    context.Context
	cancel context.CancelFunc
	client *AtomixClient
	topo   *TopoClient
	conns  *Conns
	txs    txstore3.Store
	cfgs   cfgstore3.Store
	ctls   []*Ctl
	booted chan struct{}
	up     bool
	panic  any
}

type v3sys struct {
	k          *Kernel
	eff        *Effects
	rt         *Runtime
	topo       *Topo
	dev        *Device
	plugin     *Plugin
	plan       *Plan
	inc        *v3inc
	incs       []*v3inc
	res        *Result
	hist       []v3Event
	txs        map[uint64]*configv3.Transaction
	cfg        *configv3.Configuration
	comVals    map[string]*configv3.PathValue
	appVals    map[string]*configv3.PathValue
	connUp     bool
	cfgWritten bool
	appAhead   bool
	comAhead   bool
	appTask    string
	comTask    string
	atEnd      bool
	healing    bool
	noFault    bool
	nextOp     int
	opBusy     bool
	opsDone    int
	crashes    int
	target     configv3.Target
}

func v3PhaseName(s configv3.TransactionPhaseStatus_State) string {
	switch s {
	case configv3.TransactionPhaseStatus_PENDING:
		return "Pending"
	case configv3.TransactionPhaseStatus_IN_PROGRESS:
		return "InProgress"
	case configv3.TransactionPhaseStatus_COMPLETE:
		return "Complete"
	case configv3.TransactionPhaseStatus_ABORTED:
		return "Aborted"
	case configv3.TransactionPhaseStatus_CANCELED:
		return "Canceled"
	case configv3.TransactionPhaseStatus_FAILED:
		return "Failed"
	}
	return s.String()
}

func v3st(p *configv3.TransactionPhaseStatus) string {
	if p == nil {
		return "Nil"
	}
	return v3PhaseName(p.State)
}

func (s *v3sys) report(oracle, shape, msg string) {
	sig := "C20/" + oracle + "/" + shape
	for _, v := range s.res.Viol {
		if v.Sig == sig {
			return
		}
	}
	s.res.Viol = append(s.res.Viol, &Violation{Property: "C20", Oracle: oracle, Sig: sig, Msg: s.k.Canon(msg), Step: s.k.StepN})
}

func genV3Plan(seed uint64, tier string) *Plan {
	g := NewGen(seed)
	p := &Plan{Property: "C20", Profile: "v3-protocol", Seed: seed}
	p.Knobs.Targets = []string{"t1"}
	vp := &V3Plan{Seed: false}
	n := 2 + g.pick(4)
	if tier == "thorough" {
		n = 2 + g.pick(6)
	}
	appended := 0
	for i := 0; i < n; i++ {
		if appended > 0 && g.chance(1, 4) {
			vp.Ops = append(vp.Ops, V3Op{Kind: "rollback", Of: 1 + g.pick(appended)})
			continue
		}
		op := V3Op{Kind: "append"}
		// the v3 reconciler merges plain path values: updates of leaves and deletes of leaves (no sub-tree semantics are
		// claimed by C20; they belong to the v2 properties)
		k := 1 + g.pick(2)
		used := map[string]bool{}
		for j := 0; j < k; j++ {
			pp, typ := g.RandLeafPath(false)
			if used[pp.K()] {
				continue
			}
			used[pp.K()] = true
			if g.chance(1, 5) {
				op.Ops = append(op.Ops, MOp{Del: true, P: pp})
			} else {
				op.Ops = append(op.Ops, MOp{P: pp, V: g.RandValue(typ, pp)})
			}
		}
		if g.chance(1, 6) {
			op.Poison = true
			g.vseq++
			op.Ops = append(op.Ops, MOp{P: Path{{Name: "leaftop"}}, V: fmt.Sprintf("s:%s%d", PoisonValue, g.vseq)})
		}
		appended++
		vp.Ops = append(vp.Ops, op)
	}
	p.V3 = vp
	p.Sched = g.RandSched()
	if p.Sched.Policy == "starve" {
		c := []string{"rec/transaction", "rec/configuration", "rec/mastership", "ev/configurations", "ev/transactions-", "cli/", "ev/topo", "rec/connection"}
		p.Sched.Starve = c[g.pick(len(c))]
	}
	p.Knobs.ConnLate = map[string]bool{"t1": g.chance(1, 3)}
	if g.chance(1, 2) {
		p.Knobs.MapSeed = g.R.Uint64() | 1
	}
	if g.chance(1, 2) {
		p.Profile = "v3-protocol+faults"
		kinds := []string{"crash", "crash", "conn-replace", "conn-down", "dev-restart", "op-acklost", "op-unavail"}
		for i := 0; i <= g.pick(2); i++ {
			k := kinds[g.pick(len(kinds))]
			f := Fault{Kind: k, Target: "t1"}
			switch k {
			case "op-acklost", "op-unavail":
				f.On, f.N = "write", 3+g.pick(60)
			default:
				f.On, f.N = "effect", 5+g.pick(80)
			}
			p.Faults = append(p.Faults, f)
		}
	}
	hasRollback := false
	for _, o := range vp.Ops {
		if o.Kind == "rollback" {
			hasRollback = true
		}
	}
	if hasRollback && g.chance(1, 3) {
		// the device refuses exactly the Set of a rollback, and (two times in three) a store write right after that answer
		// fails: the two-write transitions of the rollback path under a refusal
		refusals := []codes.Code{codes.InvalidArgument, codes.Internal, codes.Unknown, codes.FailedPrecondition}
		vp.RefuseRollback = &V3Refuse{Pick: g.pick(3), Code: int(refusals[g.pick(len(refusals))]), Kind: []string{"", "op-unavail", "op-acklost"}[g.pick(3)], Burst: g.pick(3)}
	}
	if g.chance(1, 3) {
		// the device definitely refuses one of the Sets (a change's or a rollback's); in half of these runs a store write
		// right after that answer fails or loses its acknowledgement
		p.Profile += "+device-refusal"
		refusals := []codes.Code{codes.InvalidArgument, codes.Internal, codes.Unknown, codes.NotFound, codes.AlreadyExists, codes.FailedPrecondition, codes.Unimplemented}
		n := 1 + g.pick(5)
		p.Faults = append(p.Faults, Fault{Kind: "dev-error", On: "devset", Target: "t1", N: n, Code: int(refusals[g.pick(len(refusals))])})
		if g.chance(1, 2) {
			p.Faults = append(p.Faults, Fault{Kind: []string{"op-unavail", "op-acklost"}[g.pick(2)], On: "after-devset", Target: "t1", N: n, Burst: g.pick(3)})
		}
	}
	vp.WaitCommitted = g.chance(1, 2)
	if g.chance(1, 8) {
		// (round 2) structured instead of random: one or two changes, the rollback of the last one, the device refuses
		// exactly that rollback's Set and a store write right after the answer fails or loses its acknowledgement - the
		// recovery branches of the rollback path. A seeded change in them (wave 3) was flagged by one run in 3000 of the
		// random mix, and by none after the schema grew: too thin to rely on.
		var apps []V3Op
		for _, o := range vp.Ops {
			if o.Kind == "append" && !o.Poison && len(apps) < 2 {
				apps = append(apps, o)
			}
		}
		if len(apps) > 0 {
			if len(apps) == 2 && g.chance(1, 2) {
				apps = apps[:1]
			}
			vp.Ops = append(apps, V3Op{Kind: "rollback", Of: len(apps), WaitApplied: true})
			refusals := []codes.Code{codes.InvalidArgument, codes.Internal, codes.Unknown, codes.FailedPrecondition}
			vp.RefuseRollback = &V3Refuse{Pick: 0, Code: int(refusals[g.pick(len(refusals))]), Kind: []string{"op-unavail", "op-acklost"}[g.pick(2)], Burst: g.pick(3)}
			p.Faults = nil
			p.Knobs.ConnLate = map[string]bool{"t1": false}
			p.Profile = "v3-protocol+rollback-refused"
		}
	}
	return p
}

func init() {
	Profiles["C20"] = &Profile{
		Property: "C20", Engine: "v3sim",
		Rule: "non-trivial: at least two transactions were appended and at least one of: a rollback was requested, a change failed validation, a fault (crash, lost acknowledgement, connection/mastership change, device restart) fired, or two transactions were in flight at the same step; distinct = distinct action-trace hash",
		Gen:  genV3Plan,
		Run:  runV3,
	}
}

func runV3(t *testing.T, plan *Plan) *Result {
	if plan.V3 != nil && plan.V3.RefuseRollback != nil {
		rr := plan.V3.RefuseRollback
		pass1 := plan.Clone()
		pass1.V3.RefuseRollback = nil
		r1 := runV3(t, pass1)
		if r1.Harness != "" || len(r1.Viol) > 0 {
			r1.Plan = pass1
			return r1
		}
		var ns []int
		for _, f := range strings.Split(r1.Extra["rollback-apply-sets"], ",") {
			var n int
			if _, err := fmt.Sscan(f, &n); err == nil && n > 0 {
				ns = append(ns, n)
			}
		}
		final := plan.Clone()
		final.V3.RefuseRollback = nil
		if len(ns) > 0 {
			n := ns[rr.Pick%len(ns)]
			final.Faults = append(final.Faults, Fault{Kind: "dev-error", On: "devset", Target: "t1", N: n, Code: rr.Code})
			if rr.Kind != "" {
				final.Faults = append(final.Faults, Fault{Kind: rr.Kind, On: "after-devset", Target: "t1", N: n, Burst: rr.Burst})
			}
			final.Profile += "+rollback-refused"
		}
		res := runV3(t, final)
		res.Plan = final
		return res
	}
	res := &Result{Plan: plan}
	start := time.Now()
	func() {
		defer func() {
			if p := recover(); p != nil {
				msg := fmt.Sprint(p)
				if !strings.Contains(msg, "deadlock: main bubble goroutine has exited") {
					res.Harness = "panic: " + msg
					res.PanicStack = string(debug.Stack())
				}
			}
		}()
		synctest.Test(t, func(t *testing.T) { v3Bubble(plan, res) })
	}()
	res.WallMs = float64(time.Since(start).Microseconds()) / 1000
	return res
}

func (s *v3sys) boot() error {
	ctx, cancel := context.WithCancel(context.Background())
	inc := &v3inc{ctx: ctx, cancel: cancel, booted: make(chan struct{})}
	inc.client = s.rt.NewClient()
	inc.topo = s.topo.Client(ctx)
	inc.conns = NewConns(s.k, ctx)
	s.inc = inc
	s.incs = append(s.incs, inc)
	s.connUp = false
	s.k.Active = fmt.Sprintf("boot/%d", len(s.incs))
	go func() {
		defer func() {
			if p := recover(); p != nil {
				inc.panic = p
				close(inc.booted)
			}
		}()
		must := func(e error) {
			if e != nil {
				panic(e)
			}
		}
		var err error
		inc.cfgs, err = cfgstore3.NewAtomixStore(inc.client)
		must(err)
		inc.txs, err = txstore3.NewAtomixStore(inc.client)
		must(err)
		reg := pluginregistry.NewPluginRegistry("fake-plugin:5152")
		reg.NewClientFn(func(endpoint string) (adminapi.ModelPluginServiceClient, error) { return s.plugin, nil })
		reg.Start()
		mk := func(name string, rec controller.Reconciler, ws ...controller.Watcher) {
			c := NewCtl(s.k, ctx, name, rec, nil)
			for _, w := range ws {
				must(c.Watch(w))
			}
			inc.ctls = append(inc.ctls, c)
		}
		mk("connection", connctl.NewReconcilerForVerif(inc.conns, inc.topo), connctl.NewConnWatcherForVerif(inc.conns), connctl.NewTopoWatcherForVerif(inc.topo))
		mk("configuration", cfgctl3.NewReconcilerForVerif(inc.topo, inc.conns, inc.cfgs), cfgctl3.NewWatcherForVerif(inc.cfgs), cfgctl3.NewTopoWatcherForVerif(inc.topo))
		mk("transaction", txctl3.NewReconcilerForVerif(configv3.NodeID(ctlutils.GetOnosConfigID()), inc.txs, inc.cfgs, inc.conns, inc.topo, reg),
			txctl3.NewWatcherForVerif(inc.txs), txctl3.NewConfigurationWatcherForVerif(inc.cfgs))
		mk("mastership", msctl3.NewReconcilerForVerif(inc.topo, inc.cfgs), msctl3.NewTopoWatcherForVerif(inc.topo), msctl3.NewConfigurationStoreWatcherForVerif(inc.cfgs))
		close(inc.booted)
	}()
	for n := 0; n < 5000; n++ {
		synctest.Wait()
		select {
		case <-inc.booted:
			if inc.panic != nil {
				return fmt.Errorf("boot panic: %v", inc.panic)
			}
			inc.up = true
			return nil
		default:
		}
		if !s.stepOnce() {
			return fmt.Errorf("boot stuck")
		}
	}
	return fmt.Errorf("boot did not finish")
}

func (s *v3sys) crash() {
	if s.inc == nil || !s.inc.up {
		return
	}
	s.inc.up = false
	s.crashes++
	s.k.Stat("fault/crash")
	s.inc.cancel()
	s.inc.client.Close()
	s.inc.conns.Close()
	s.opBusy = false
	synctest.Wait()
}

func (s *v3sys) stepOnce() bool {
	ok := s.k.Step()
	if ok {
		synctest.Wait()
		s.check()
	}
	return ok
}

func pvEqual(a, b *configv3.PathValue) bool {
	if a == nil || b == nil {
		return a == nil && b == nil
	}
	if a.Deleted != b.Deleted {
		return false
	}
	if a.Deleted {
		return true
	}
	return a.Value.Type == b.Value.Type && string(a.Value.Bytes) == string(b.Value.Bytes)
}

// onWrite decodes records and extends the history.
func (s *v3sys) onWrite(w WriteRec) {
	p := s.rt.P(w.Prim)
	switch {
	case strings.HasPrefix(w.Prim, "transactions-"):
		for _, k := range w.Keys {
			e := p.Entries[k]
			if e == nil {
				continue
			}
			tx := &configv3.Transaction{}
			if err := tx.Unmarshal(e.Val); err != nil {
				s.res.Harness = "decode v3 transaction: " + err.Error()
				continue
			}
			old := s.txs[e.Index]
			s.txs[e.Index] = tx
			type fld struct {
				phase, event string
				o, n         *configv3.TransactionPhaseStatus
			}
			var oc, oa, orc, ora *configv3.TransactionPhaseStatus
			if old != nil {
				oc, oa, orc, ora = old.Status.Change.Commit, old.Status.Change.Apply, old.Status.Rollback.Commit, old.Status.Rollback.Apply
			}
			for _, f := range []fld{{"Change", "Commit", oc, tx.Status.Change.Commit}, {"Change", "Apply", oa, tx.Status.Change.Apply},
				{"Rollback", "Commit", orc, tx.Status.Rollback.Commit}, {"Rollback", "Apply", ora, tx.Status.Rollback.Apply}} {
				if f.n == nil {
					continue
				}
				if v3st(f.o) != v3st(f.n) && f.n.State != configv3.TransactionPhaseStatus_PENDING {
					s.hist = append(s.hist, v3Event{Phase: f.phase, Event: f.event, Index: e.Index, Status: v3st(f.n), Step: s.k.StepN})
				}
			}
		}
	case w.Prim == "configurations":
		for _, k := range w.Keys {
			e := p.Entries[k]
			if e == nil {
				continue
			}
			c := &configv3.Configuration{}
			if err := c.Unmarshal(e.Val); err != nil {
				s.res.Harness = "decode v3 configuration: " + err.Error()
				continue
			}
			prev := s.cfg
			s.cfg = c
			s.cfgWritten = true
			// the record that goes with a value-map write: written by the same reconcile, or - after a failed, conflicting
			// or crashed first attempt - by a later reconcile of the transaction controller that moves that side's cursors
			tc := strings.HasPrefix(w.Task, "rec/transaction") && prev != nil
			if w.Task == s.appTask || (tc && (prev.Applied.Revision != c.Applied.Revision || prev.Applied.Ordinal != c.Applied.Ordinal)) {
				s.appAhead = false
			}
			if w.Task == s.comTask || (tc && (prev.Committed.Revision != c.Committed.Revision || prev.Committed.Ordinal != c.Committed.Ordinal)) {
				s.comAhead = false
			}
		}
	case strings.HasPrefix(w.Prim, "configurations-"):
		// A transition writes the value map first and the record (revisions) second. Until the transaction controller has
		// written the record that goes with it, the value map is ahead of the record; a write of the record by anybody else
		// in that gap (a mastership or synchronisation status, another transaction's commit from a copy read before) does
		// not make the pair comparable (see check)
		if strings.HasSuffix(w.Prim, "-applied") {
			s.appAhead, s.appTask = true, w.Task
		} else {
			s.comAhead, s.comTask = true, w.Task
			if !s.sharedMapSplit() {
				s.appAhead, s.appTask = true, w.Task
			}
		}
		vals := map[string]*configv3.PathValue{}
		for k, e := range p.Entries {
			pv := &configv3.PathValue{}
			if pv.Unmarshal(e.Val) == nil {
				vals[k] = pv
			}
		}
		if strings.HasSuffix(w.Prim, "-applied") {
			s.appVals = vals
		} else {
			s.comVals = vals
			if !s.sharedMapSplit() {
				s.appVals = vals // committed and applied values live in one map in this version of the store
			}
		}
	}
}

func (s *v3sys) sharedMapSplit() bool {
	for name := range s.rt.Prims {
		if strings.HasPrefix(name, "configurations-") && strings.HasSuffix(name, "-applied") {
			return true
		}
	}
	return false
}

// check evaluates Order and Consistency after a step.
func (s *v3sys) check() {
	h := s.hist
	// ---- Order: every Complete event is an ordered change or an ordered rollback
	for i := range h {
		if h[i].Status != "Complete" {
			continue
		}
		ok := false
		p := h[i].Event
		if h[i].Phase == "Change" {
			ok = true
			for j := 0; j < i; j++ {
				if h[j].Phase == "Change" && h[j].Event == p && h[j].Status == "Complete" && h[j].Index >= h[i].Index {
					ok = false
				}
			}
			if !ok {
				s.report("order", "change-"+strings.ToLower(p)+"-out-of-order", fmt.Sprintf("history %s: %s of change %d completed after a %s of a change with an index >= %d", v3hist(h), p, h[i].Index, p, h[i].Index))
			}
		} else {
			changed := false
			for j := 0; j < i; j++ {
				if h[j].Phase == "Change" && h[j].Status == "Complete" && h[j].Index == h[i].Index {
					changed = true
				}
			}
			ok = changed
			if !changed {
				s.report("order", "rollback-without-change", fmt.Sprintf("history %s: rollback %s of %d completed but no change event of %d completed before", v3hist(h), p, h[i].Index, h[i].Index))
			}
			for j := 0; j < i; j++ {
				if h[j].Phase == "Change" && h[j].Event == p && h[j].Status == "Complete" && h[j].Index > h[i].Index {
					rolled := false
					for k := j + 1; k < i; k++ {
						if h[k].Phase == "Rollback" && h[k].Event == p && h[k].Index == h[j].Index {
							rolled = true
						}
					}
					if !rolled {
						s.report("order", "rollback-"+strings.ToLower(p)+"-not-reverse", fmt.Sprintf("history %s: rollback %s of %d completed while the later change %d (%s complete) has not been rolled back", v3hist(h), p, h[i].Index, h[j].Index, p))
					}
				}
			}
		}
	}
	// each phase is committed before it is applied
	for _, tx := range s.txs {
		ch, rb := tx.Status.Change, tx.Status.Rollback
		if ch.Apply != nil && (ch.Apply.State == configv3.TransactionPhaseStatus_IN_PROGRESS || ch.Apply.State == configv3.TransactionPhaseStatus_COMPLETE) &&
			(ch.Commit == nil || ch.Commit.State != configv3.TransactionPhaseStatus_COMPLETE) {
			s.report("order", "applied-before-committed", fmt.Sprintf("transaction %d: change apply is %s while change commit is %s", tx.ID.Index, v3st(ch.Apply), v3st(ch.Commit)))
		}
		if rb.Apply != nil && (rb.Apply.State == configv3.TransactionPhaseStatus_IN_PROGRESS || rb.Apply.State == configv3.TransactionPhaseStatus_COMPLETE) &&
			(rb.Commit == nil || rb.Commit.State != configv3.TransactionPhaseStatus_COMPLETE) {
			s.report("order", "rollback-applied-before-committed", fmt.Sprintf("transaction %d: rollback apply is %s while rollback commit is %s", tx.ID.Index, v3st(rb.Apply), v3st(rb.Commit)))
		}
	}
	// blocking clause: a change whose apply failed (or was aborted) and that is not rolled back keeps later changes from
	// being applied
	for i, ti := range s.txs {
		ap := ti.Status.Change.Apply
		if ap == nil || (ap.State != configv3.TransactionPhaseStatus_FAILED && ap.State != configv3.TransactionPhaseStatus_ABORTED) {
			continue
		}
		if ti.Status.Rollback.Apply != nil && ti.Status.Rollback.Apply.State == configv3.TransactionPhaseStatus_COMPLETE {
			continue
		}
		for j, tj := range s.txs {
			if j <= i || tj.Status.Change.Apply == nil {
				continue
			}
			// only applies started after the failure count: look at the history order
			st := tj.Status.Change.Apply.State
			if st == configv3.TransactionPhaseStatus_IN_PROGRESS || st == configv3.TransactionPhaseStatus_COMPLETE {
				if s.startedAfterFailure(uint64(i), uint64(j)) {
					// shape: was a change between the failed one and this one rolled back meanwhile? (the recorded finding:
					// rolling back an aborted successor of the failed change moves the applied cursors past the failed change)
					shape := "applied-past-failed-change"
					if ra := ti.Status.Rollback.Apply; ra != nil && ra.State == configv3.TransactionPhaseStatus_FAILED {
						// its rollback was attempted and the device refused it
						shape = "applied-past-failed-change:its-rollback-failed"
					}
					for k, tk := range s.txs {
						if k > i && k < j && tk.Status.Rollback.Apply != nil && tk.Status.Rollback.Apply.State == configv3.TransactionPhaseStatus_COMPLETE {
							shape = "applied-past-failed-change:after-rollback-of-a-change-in-between"
						}
					}
					s.report("order", shape, fmt.Sprintf("history %s: change %d apply is %s although the apply of change %d is %s and has not been rolled back", v3hist(h), j, v3st(tj.Status.Change.Apply), i, v3st(ap)))
				}
			}
		}
	}
	// ---- Consistency. The store writes a value map and the Configuration record as two Atomix operations; the clauses are
	// evaluated when the record (which carries the revisions) has just been written, and at quiescence - not in between.
	c := s.cfg
	if c == nil || !s.cfgWritten {
		return
	}
	s.cfgWritten = false
	skipCom := s.comAhead && !s.atEnd
	skipApp := s.appAhead && !s.atEnd
	// what a reader of the store sees as committed values: the values embedded in the record (status updates keep them
	// there) overlaid with the entries of the committed value map (store.populate)
	comView := map[string]*configv3.PathValue{}
	for path, v := range c.Committed.Values {
		v := v
		comView[path] = &v
	}
	for path, v := range s.comVals {
		comView[path] = v
	}
	if rev := uint64(c.Committed.Revision); rev != 0 && !skipCom {
		if tx := s.txs[rev]; tx != nil {
			for path, v := range tx.Values {
				v := v
				if got := comView[path]; !pvEqual(got, &v) {
					s.report("consistency", "committed-values", fmt.Sprintf("committed revision is %d but committed value of %s is %s, transaction %d holds %s", rev, path, v3pv(got), rev, v3pv(&v)))
				}
			}
		}
	}
	// a completed rollback has restored the cursors: the Configuration is written before the transaction is marked, so
	// once the rollback commit (apply) of i is COMPLETE the committed (applied) revision cannot name i any more
	for i, ti := range s.txs {
		if rc := ti.Status.Rollback.Commit; rc != nil && rc.State == configv3.TransactionPhaseStatus_COMPLETE && uint64(c.Committed.Revision) == i {
			s.report("consistency", "rolled-back-change-is-still-the-committed-revision", fmt.Sprintf("the rollback commit of change %d is Complete but the committed revision is still %d; history %s", i, i, v3hist(s.hist)))
		}
		if ra := ti.Status.Rollback.Apply; ra != nil && ra.State == configv3.TransactionPhaseStatus_COMPLETE && uint64(c.Applied.Revision) == i {
			s.report("consistency", "rolled-back-change-is-still-the-applied-revision", fmt.Sprintf("the rollback apply of change %d is Complete but the applied revision is still %d (the applied values and the device still hold its values); history %s", i, i, v3hist(s.hist)))
		}
	}
	if rev := uint64(c.Applied.Revision); rev != 0 && !skipApp {
		if tx := s.txs[rev]; tx != nil {
			synced := s.connUp && c.Status.State == configv3.ConfigurationStatus_SYNCHRONIZED && c.Status.Mastership != nil &&
				c.Applied.Term == c.Status.Mastership.Term && string(c.Status.Mastership.Master) == s.inc.conns.Current("t1") && s.quiet()
			if ap := tx.Status.Change.Apply; ap != nil && (ap.State == configv3.TransactionPhaseStatus_FAILED || ap.State == configv3.TransactionPhaseStatus_ABORTED) {
				// the applied revision names a change that was never applied: reported as such, its values are not compared
				s.report("consistency", "applied-revision-names-unapplied-change:"+strings.ToLower(v3st(ap)), fmt.Sprintf("applied revision is %d but the apply of change %d is %s; history %s", rev, rev, v3st(ap), v3hist(s.hist)))
				return
			}
			for path, v := range tx.Values {
				v := v
				if got := s.appVals[path]; !pvEqual(got, &v) {
					s.report("consistency", "applied-values", fmt.Sprintf("applied revision is %d but applied value of %s is %s, transaction %d holds %s", rev, path, v3pv(got), rev, v3pv(&v)))
				}
				if synced {
					pp, err := ParseTextPath(path)
					if err != nil {
						continue
					}
					l, has := s.dev.State[pp.K()]
					if v.Deleted {
						if has {
							s.report("consistency", "device-values:deleted-value-still-on-device", fmt.Sprintf("applied revision is %d (connected, synchronized in the current term) but the device still holds %s which transaction %d deleted", rev, path, rev))
						}
					} else if !has || l.V != v3canon(&v) {
						shape := "device-values:missing-on-device"
						if has {
							shape = "device-values:other-value"
							// does the device hold what an earlier transaction wrote to that path, after a re-synchronisation?
							for j, tj := range s.txs {
								if ov, ok := tj.Values[path]; ok && j < rev && !ov.Deleted && v3canon(&ov) == l.V {
									shape = "device-values:value-of-an-earlier-change"
									if c.Applied.Term > 1 {
										shape += "-after-resync"
									}
								}
							}
						}
						s.report("consistency", shape, fmt.Sprintf("applied revision is %d (connected, synchronized in the current term) but the device holds %v for %s; transaction %d holds %s", rev, l.V, path, rev, v3pv(&v)))
					}
				}
			}
		}
	}
}

// quiet: nothing is in flight (device comparison only makes sense then)
func (s *v3sys) quiet() bool {
	for _, c := range s.inc.ctls {
		if !c.Idle() {
			return false
		}
	}
	return s.rt.PendingEvents() == 0
}

func (s *v3sys) startedAfterFailure(i, j uint64) bool {
	fail := -1
	for k, e := range s.hist {
		if e.Phase == "Change" && e.Event == "Apply" && e.Index == i && (e.Status == "Failed" || e.Status == "Aborted") {
			fail = k
		}
	}
	if fail < 0 {
		return false
	}
	for k := fail + 1; k < len(s.hist); k++ {
		e := s.hist[k]
		if e.Phase == "Change" && e.Event == "Apply" && e.Index == j && e.Status == "InProgress" {
			return true
		}
	}
	return false
}

func v3canon(v *configv3.PathValue) string {
	switch v.Value.Type {
	case configv3.ValueType_STRING:
		return "s:" + string(v.Value.Bytes)
	case configv3.ValueType_BOOL:
		return fmt.Sprintf("b:%v", (*configv3.TypedBool)(&v.Value).Bool())
	case configv3.ValueType_UINT:
		return fmt.Sprintf("u:%d", (*configv3.TypedUint)(&v.Value).Uint())
	case configv3.ValueType_INT:
		return fmt.Sprintf("i:%d", (*configv3.TypedInt)(&v.Value).Int())
	}
	return fmt.Sprintf("?%v", v.Value.Type)
}

func v3pv(v *configv3.PathValue) string {
	if v == nil {
		return "<absent>"
	}
	if v.Deleted {
		return "<deleted>"
	}
	return v3canon(v)
}

func v3hist(h []v3Event) string {
	var parts []string
	for _, e := range h {
		parts = append(parts, fmt.Sprintf("%s%s(%d)=%s", e.Phase[:1], e.Event[:1], e.Index, e.Status))
	}
	if len(parts) > 40 {
		parts = parts[len(parts)-40:]
	}
	return "[" + strings.Join(parts, " ") + "]"
}

func v3value(o MOp) configv3.PathValue {
	pv := configv3.PathValue{Path: PluginPathText(o.P), Deleted: o.Del}
	if o.Del {
		return pv
	}
	body := o.V[strings.Index(o.V, ":")+1:]
	switch o.V[:1] {
	case "s":
		pv.Value = *configv3.NewTypedValueString(body)
	case "b":
		pv.Value = *configv3.NewTypedValueBool(body == "true")
	case "u":
		var n uint64
		fmt.Sscan(body, &n)
		pv.Value = *configv3.NewTypedValueUint(uint(n), 64)
	case "i":
		var n int64
		fmt.Sscan(body, &n)
		pv.Value = *configv3.NewTypedValueInt(int(n), 32)
	}
	return pv
}

func v3Bubble(plan *Plan, res *Result) {
	uuid.SetRand(seededReader{rand.New(rand.NewSource(int64(plan.Seed)))})
	uuid.SetClockSequence(1)
	rand.Seed(int64(plan.Seed))
	os.Setenv("POD_ID", "onos-config-0")
	verifrt.Seed.Store(plan.Knobs.MapSeed)
	k := NewKernel(&plan.Sched)
	s := &v3sys{k: k, eff: &Effects{}, plan: plan, res: res, txs: map[uint64]*configv3.Transaction{}, target: configv3.Target{ID: "t1", Type: ModelName, Version: ModelVersion}}
	s.rt = NewRuntime(k, s.eff)
	s.rt.NoParkSubscribe = func(prim string) bool { return strings.HasPrefix(prim, "transactions-") }
	s.rt.OnWrite = s.onWrite
	s.topo = NewTopo(k, s.eff)
	s.topo.AddNode(ctlutils.GetOnosConfigID())
	s.topo.AddTarget("t1", ModelName, ModelVersion, false)
	s.dev = NewDevice(k, "t1", s.eff)
	s.plugin = NewPlugin(k, ModelName, ModelVersion)
	defer func() {
		for _, inc := range s.incs {
			inc.cancel()
			inc.conns.Close()
			inc.client.Close()
		}
		s.rt.Stop()
		s.dev.Stop()
		synctest.Wait()
	}()
	k.AddSource("v3-conn", func() []Action {
		if s.inc == nil || !s.inc.up || s.connUp {
			return nil
		}
		lazy := plan.Knobs.ConnLate["t1"] && !s.healing
		return []Action{{Key: "fault/conn-up/t1", Lazy: lazy, Fire: func() { s.connUp = true; s.inc.conns.Up(s.dev) }}}
	})
	// workload: the missing northbound
	vp := plan.V3
	k.AddSource("v3-workload", func() []Action {
		if s.inc == nil || !s.inc.up || s.opBusy || s.nextOp > len(vp.Ops) {
			return nil
		}
		i := s.nextOp
		if i >= 1 && i <= len(vp.Ops) && vp.Ops[i-1].Kind == "rollback" {
			tx := s.txs[uint64(vp.Ops[i-1].Of)]
			if vp.Ops[i-1].WaitApplied {
				if tx == nil || tx.Status.Change.Apply == nil || tx.Status.Change.Apply.State != configv3.TransactionPhaseStatus_COMPLETE {
					return nil
				}
			} else if vp.WaitCommitted && (tx == nil || tx.Status.Change.Commit == nil ||
				(tx.Status.Change.Commit.State != configv3.TransactionPhaseStatus_COMPLETE && tx.Status.Change.Commit.State != configv3.TransactionPhaseStatus_FAILED)) {
				// RollbackChange is enabled for committed changes only (spec): in these runs the client waits for that
				// instead of asking at a random moment and being turned away
				return nil
			}
		}
		return []Action{{Key: fmt.Sprintf("cli/%d", i), Task: fmt.Sprintf("cli/%d", i), Fire: func() {
			s.nextOp++
			s.opBusy = true
			inc := s.inc
			ctx := inc.ctx
			go func() {
				defer func() {
					if inc == s.inc {
						s.opBusy = false
						s.opsDone++
					}
				}()
				if i == 0 {
					cfg := &configv3.Configuration{ID: configv3.ConfigurationID{Target: s.target}, Status: configv3.ConfigurationStatus{Mastership: &configv3.MastershipStatus{}}}
					if vp.Seed {
						cfg.Committed.Values = map[string]configv3.PathValue{"/cont1b/leafb": {Path: "/cont1b/leafb", Value: *configv3.NewTypedValueBool(true)}}
					}
					if err := inc.cfgs.Create(ctx, cfg); err != nil && !errors.IsAlreadyExists(err) {
						s.k.Stat("workload-error")
					}
					return
				}
				op := vp.Ops[i-1]
				switch op.Kind {
				case "append":
					tx := &configv3.Transaction{ID: configv3.TransactionID{Target: s.target}, Values: map[string]configv3.PathValue{},
						Status: configv3.TransactionStatus{Phase: configv3.TransactionStatus_CHANGE, Change: configv3.TransactionChangeStatus{
							Commit: &configv3.TransactionPhaseStatus{}, Apply: &configv3.TransactionPhaseStatus{}}}}
					tx.Key = fmt.Sprintf("k%d", i)
					for _, o := range op.Ops {
						pv := v3value(o)
						tx.Values[pv.Path] = pv
					}
					if err := inc.txs.Create(ctx, tx); err != nil && !errors.IsAlreadyExists(err) {
						s.k.Stat("workload-error")
					}
				case "rollback":
					// RollbackChange(i): enabled only for a change whose commit is complete
					for attempt := 0; attempt < 3; attempt++ {
						tx, err := inc.txs.Get(ctx, configv3.TransactionID{Target: s.target, Index: configv3.Index(op.Of)})
						if err != nil {
							return
						}
						if tx.Status.Phase != configv3.TransactionStatus_CHANGE || tx.Status.Change.Commit == nil ||
							tx.Status.Change.Commit.State != configv3.TransactionPhaseStatus_COMPLETE {
							s.k.Probe("c20-rollback-not-enabled")
							return
						}
						tx.Status.Phase = configv3.TransactionStatus_ROLLBACK
						tx.Status.Rollback.Commit = &configv3.TransactionPhaseStatus{}
						tx.Status.Rollback.Apply = &configv3.TransactionPhaseStatus{}
						err = inc.txs.UpdateStatus(ctx, tx)
						if err == nil {
							s.k.Probe("c20-rollback-requested")
							return
						}
						if !errors.IsConflict(err) {
							return
						}
					}
				}
			}()
		}}}
	})
	if err := s.boot(); err != nil {
		res.Harness = err.Error()
		return
	}
	fire := func() bool {
		if s.noFault {
			return false
		}
		fired := false
		for i := range plan.Faults {
			f := &plan.Faults[i]
			if f.fired {
				continue
			}
			switch f.Kind {
			case "op-acklost", "op-unavail":
				n := f.N
				if f.On == "after-devset" {
					s.dev.mu.Lock()
					due := len(s.dev.Log) >= f.N
					s.dev.mu.Unlock()
					if !due {
						continue
					}
					n = s.rt.Writes + 1 + f.Burst
				}
				f.fired = true
				s.rt.OpFaults[n] = strings.TrimPrefix(f.Kind, "op-")
				continue
			case "dev-error":
				f.fired = true
				s.dev.Faults[f.N] = DevFault{Kind: "code", Code: codes.Code(f.Code)}
				continue
			}
			if s.eff.N < f.N || !s.inc.up {
				continue
			}
			f.fired = true
			fired = true
			k.Trace = append(k.Trace, "fault/"+f.Kind)
			switch f.Kind {
			case "crash":
				s.crash()
				if err := s.boot(); err != nil {
					res.Harness = "restart: " + err.Error()
					return true
				}
			case "conn-down":
				if s.connUp {
					k.Stat("fault/conn-down")
					s.inc.conns.Down("t1")
					s.connUp = false
				}
			case "conn-replace":
				if s.connUp {
					k.Stat("fault/conn-replace")
					s.inc.conns.Up(s.dev)
				}
			case "dev-restart":
				k.Stat("fault/dev-restart-empty")
				s.dev.RestartEmpty()
				if s.connUp {
					s.inc.conns.Down("t1")
					s.connUp = false
				}
			}
			synctest.Wait()
		}
		return fired
	}
	capHit := true
	for k.StepN < 30000 {
		synctest.Wait()
		if res.Harness != "" {
			return
		}
		fire()
		if !s.healing && k.StepN >= 15000 {
			s.healing, s.noFault, k.Fair = true, true, true
			k.Trace = append(k.Trace, "heal")
		}
		if !s.stepOnce() {
			if fire() {
				continue
			}
			if !s.healing {
				s.healing, s.noFault, k.Fair = true, true, true
				for n := range s.rt.OpFaults {
					delete(s.rt.OpFaults, n)
				}
				k.Trace = append(k.Trace, "heal")
				continue
			}
			capHit = false
			break
		}
	}
	res.CapHit = capHit
	s.cfgWritten = true
	s.atEnd = true
	s.check()
	// ---- Termination
	idx := make([]uint64, 0, len(s.txs))
	for i := range s.txs {
		idx = append(idx, i)
	}
	sort.Slice(idx, func(a, b int) bool { return idx[a] < idx[b] })
	var stuck []string
	for _, i := range idx {
		tx := s.txs[i]
		done := func(c, a *configv3.TransactionPhaseStatus) bool {
			if c == nil || a == nil {
				return false
			}
			cs, as := c.State, a.State
			cOK := cs == configv3.TransactionPhaseStatus_COMPLETE || cs == configv3.TransactionPhaseStatus_FAILED
			aOK := as == configv3.TransactionPhaseStatus_COMPLETE || as == configv3.TransactionPhaseStatus_ABORTED || as == configv3.TransactionPhaseStatus_FAILED || as == configv3.TransactionPhaseStatus_CANCELED
			return cOK && aOK
		}
		if tx.Status.Phase == configv3.TransactionStatus_CHANGE && !done(tx.Status.Change.Commit, tx.Status.Change.Apply) {
			stuck = append(stuck, fmt.Sprintf("tx%d change commit=%s apply=%s", i, v3st(tx.Status.Change.Commit), v3st(tx.Status.Change.Apply)))
		}
		if tx.Status.Phase == configv3.TransactionStatus_ROLLBACK && !done(tx.Status.Rollback.Commit, tx.Status.Rollback.Apply) {
			// Rollbacks are committed in reverse log order only: a rollback stays pending, by design, while a later
			// committed change has not been asked to roll back (the specification assumes it eventually will be)
			blocked := false
			if rc := tx.Status.Rollback.Commit; rc != nil && rc.State == configv3.TransactionPhaseStatus_PENDING {
				for _, j := range idx {
					tj := s.txs[j]
					if j > i && tj.Status.Phase == configv3.TransactionStatus_CHANGE && tj.Status.Change.Commit != nil &&
						tj.Status.Change.Commit.State != configv3.TransactionPhaseStatus_FAILED {
						blocked = true
					}
				}
			}
			if blocked {
				k.Probe("c20-rollback-waits-for-later-change")
				continue
			}
			stuck = append(stuck, fmt.Sprintf("tx%d rollback commit=%s apply=%s (change apply=%s)", i, v3st(tx.Status.Rollback.Commit), v3st(tx.Status.Rollback.Apply), v3st(tx.Status.Change.Apply)))
		}
	}
	if capHit {
		s.report("termination", "no-quiescence", fmt.Sprintf("the system did not become quiescent within %d steps after faults stopped; history %s; not terminated: %v", k.StepN, v3hist(s.hist), stuck))
	} else if len(stuck) > 0 {
		shape := "stuck"
		if len(stuck) > 0 {
			f := stuck[0]
			shape = strings.ToLower(strings.Join(strings.Fields(f)[1:], "-"))
			// the relation of the configuration cursors is part of the identity of a stuck state
			rel := func(a, b uint64) string {
				switch {
				case a < b:
					return "<"
				case a > b:
					return ">"
				}
				return "="
			}
			if c := s.cfg; c != nil {
				shape += fmt.Sprintf("|committed-index%starget|applied-index%starget|applied-ordinal%scommitted-ordinal", rel(uint64(c.Committed.Index), uint64(c.Committed.Target)),
					rel(uint64(c.Applied.Index), uint64(c.Applied.Target)), rel(uint64(c.Applied.Ordinal), uint64(c.Committed.Ordinal)))
			}
		}
		s.report("termination", shape, fmt.Sprintf("quiescent (nothing pending, device connected) but not terminated: %v; history %s; configuration %s", stuck, v3hist(s.hist), s.cfgSummary()))
	}
	// evidence
	inflightProbe := k.Probes["c20-two-in-flight"] > 0
	res.NonTrivial = len(s.txs) >= 2 && (k.Probes["c20-rollback-requested"] > 0 || s.crashes > 0 || len(k.Stats) > 0 || inflightProbe || v3anyFailed(s.txs))
	res.Steps = k.StepN
	res.Trace = k.Trace
	res.TraceHash = fmt.Sprintf("%016x", k.TraceHash())
	res.Stats = k.Stats
	// the Sets with which rolled-back transactions applied their rollback: the second accepted Set of a transaction
	{
		per := map[string]int{}
		var ns []string
		s.dev.mu.Lock()
		for _, q := range s.dev.Log {
			if strings.HasPrefix(q.Task, "rec/transaction") && q.Outcome == "ok" {
				id := q.Task
				if i := strings.LastIndex(id, "~"); i >= 0 {
					id = id[:i]
				}
				per[id]++
				if per[id] == 2 {
					ns = append(ns, fmt.Sprint(q.N))
				}
			}
		}
		s.dev.mu.Unlock()
		if res.Extra == nil {
			res.Extra = map[string]string{}
		}
		res.Extra["rollback-apply-sets"] = strings.Join(ns, ",")
	}
	res.Probes = k.Probes
	res.Used = plan.Sched.Used()
	res.Effects = s.eff.N
	res.Crashes = s.crashes
	var sb strings.Builder
	for _, i := range idx {
		tx := s.txs[i]
		fmt.Fprintf(&sb, "tx%d:%s C(%s,%s) R(%s,%s) ", i, tx.Status.Phase, v3st(tx.Status.Change.Commit), v3st(tx.Status.Change.Apply), v3st(tx.Status.Rollback.Commit), v3st(tx.Status.Rollback.Apply))
	}
	sb.WriteString("| " + s.cfgSummary())
	res.Summary = k.Canon(sb.String())
}

func v3anyFailed(txs map[uint64]*configv3.Transaction) bool {
	for _, tx := range txs {
		if c := tx.Status.Change.Commit; c != nil && c.State == configv3.TransactionPhaseStatus_FAILED {
			return true
		}
	}
	return false
}

func (s *v3sys) cfgSummary() string {
	c := s.cfg
	if c == nil {
		return "cfg <none>"
	}
	term, master := configv3.MastershipTerm(0), ""
	if c.Status.Mastership != nil {
		term, master = c.Status.Mastership.Term, string(c.Status.Mastership.Master)
	}
	return fmt.Sprintf("cfg committed{idx=%d ord=%d rev=%d tgt=%d chg=%d} applied{idx=%d ord=%d rev=%d tgt=%d term=%d} %s term=%d master=%s", c.Committed.Index, c.Committed.Ordinal,
		c.Committed.Revision, c.Committed.Target, c.Committed.Change, c.Applied.Index, c.Applied.Ordinal, c.Applied.Revision, c.Applied.Target, c.Applied.Term, c.Status.State, term, s.k.Canon(master))
}
