package sim

// Stub fidelity: the fake Atomix runtime against the in-memory Atomix that ships with the SDK (go-sdk/pkg/test: a real
// replicated-state-machine node on a local network driver). Seeded random sequences of exactly the operations the
// repository's stores use - Map: Put, Insert, Update[IfVersion], Get, Remove[IfVersion], List, Events[WithKey],
// Transaction{Insert,Update,Remove}[IfVersion].Commit; IndexedMap: Append, Update[IfVersion], Get, GetIndex, List, Events -
// are run through the real SDK client against both; results (values, error classes, index assignment, the order relation
// between returned versions, listed contents, event sequences per stream) must be identical.
//
// This runs OUTSIDE a synctest bubble (the real runtime uses real goroutines and timers); the fake's kernel is driven by
// a free-running stepper. It is a functional comparison, not a simulation.

import (
	"context"
	"fmt"
	"io"
	"math/rand"
	"sort"
	"strings"
	"testing"
	"time"

	aerrors "github.com/atomix/atomix/api/errors"
	"github.com/atomix/go-sdk/pkg/primitive"
	"github.com/atomix/go-sdk/pkg/primitive/indexedmap"
	_map "github.com/atomix/go-sdk/pkg/primitive/map"
	atest "github.com/atomix/go-sdk/pkg/test"
	"github.com/atomix/go-sdk/pkg/types"
)

type fidOp struct {
	Prim   string // m | im
	Op     string
	Key    string
	Val    string
	Ref    int // IfVersion: use the version returned by result #Ref (-1: none)
	Idx    int // GetIndex: index ordinal (1-based position among appended entries), 0 = a missing index
	Tx     []fidOp
	Stream int // events: stream ordinal
}

type fidRes struct {
	desc string // comparable rendering (without raw versions)
	ver  uint64 // raw version (0 if none)
	key  string // key the version belongs to (prim + key)
	vers []uint64
	keys []string
}

func fidErrClass(err error) string {
	switch {
	case err == nil:
		return "ok"
	case aerrors.IsNotFound(err):
		return "NotFound"
	case aerrors.IsAlreadyExists(err):
		return "AlreadyExists"
	case aerrors.IsConflict(err):
		return "Conflict"
	case aerrors.IsInvalid(err):
		return "Invalid"
	case aerrors.IsUnavailable(err):
		return "Unavailable"
	case aerrors.IsCanceled(err):
		return "Canceled"
	}
	return "other(" + err.Error() + ")"
}

func genFidOps(r *rand.Rand, n int) []fidOp {
	keys := []string{"a", "b", "c", "d"}
	var ops []fidOp
	streams := 0
	ref := func(i int) int {
		// a reference to an earlier result whose version may be current or stale; sometimes none
		if i == 0 || r.Intn(4) == 0 {
			return -1
		}
		if r.Intn(3) == 0 {
			return r.Intn(i)
		}
		// most recent results are most likely current
		j := i - 1 - r.Intn(min(i, 4))
		return j
	}
	for i := 0; i < n; i++ {
		k := keys[r.Intn(len(keys))]
		v := fmt.Sprintf("v%d", i)
		if r.Intn(3) == 0 {
			// indexed map
			switch r.Intn(10) {
			case 0, 1, 2:
				ops = append(ops, fidOp{Prim: "im", Op: "append", Key: fmt.Sprintf("k%d", r.Intn(8)), Val: v, Ref: -1})
			case 3, 4, 5:
				ops = append(ops, fidOp{Prim: "im", Op: "update", Key: fmt.Sprintf("k%d", r.Intn(8)), Val: v, Ref: ref(i)})
			case 6:
				ops = append(ops, fidOp{Prim: "im", Op: "get", Key: fmt.Sprintf("k%d", r.Intn(8)), Ref: -1})
			case 7:
				ops = append(ops, fidOp{Prim: "im", Op: "getindex", Idx: r.Intn(6), Ref: -1})
			case 8:
				ops = append(ops, fidOp{Prim: "im", Op: "list", Ref: -1})
			default:
				if streams < 4 {
					ops = append(ops, fidOp{Prim: "im", Op: "events", Stream: streams, Ref: -1})
					streams++
				}
			}
			continue
		}
		switch r.Intn(14) {
		case 0:
			ops = append(ops, fidOp{Prim: "m", Op: "put", Key: k, Val: v, Ref: -1})
		case 1, 2:
			ops = append(ops, fidOp{Prim: "m", Op: "insert", Key: k, Val: v, Ref: -1})
		case 3, 4, 5:
			ops = append(ops, fidOp{Prim: "m", Op: "update", Key: k, Val: v, Ref: ref(i)})
		case 6:
			ops = append(ops, fidOp{Prim: "m", Op: "get", Key: k, Ref: -1})
		case 7:
			ops = append(ops, fidOp{Prim: "m", Op: "remove", Key: k, Ref: ref(i)})
		case 8:
			ops = append(ops, fidOp{Prim: "m", Op: "list", Ref: -1})
		case 9:
			if streams < 4 {
				o := fidOp{Prim: "m", Op: "events", Stream: streams, Ref: -1}
				if r.Intn(2) == 0 {
					o.Key = k
				}
				ops = append(ops, o)
				streams++
			}
		default:
			// a transaction of 1-3 operations on distinct keys
			var tx []fidOp
			perm := r.Perm(len(keys))
			for j := 0; j < 1+r.Intn(3); j++ {
				kk := keys[perm[j]]
				switch r.Intn(3) {
				case 0:
					tx = append(tx, fidOp{Op: "insert", Key: kk, Val: fmt.Sprintf("%s.%d", v, j), Ref: -1})
				case 1:
					tx = append(tx, fidOp{Op: "update", Key: kk, Val: fmt.Sprintf("%s.%d", v, j), Ref: ref(i)})
				default:
					tx = append(tx, fidOp{Op: "remove", Key: kk, Ref: ref(i)})
				}
			}
			ops = append(ops, fidOp{Prim: "m", Op: "tx", Tx: tx, Ref: -1})
		}
	}
	return ops
}

// runFid executes ops sequentially on one client and returns the comparable transcript.
func runFid(t *testing.T, client primitive.Client, ops []fidOp, settle func()) []string {
	ctx, cancel := context.WithTimeout(context.Background(), 2*time.Minute)
	defer cancel()
	m, err := _map.NewBuilder[string, string](client, "fid-map").Codec(types.Scalar[string]()).Get(ctx)
	if err != nil {
		t.Fatalf("map: %v", err)
	}
	im, err := indexedmap.NewBuilder[string, string](client, "fid-imap").Codec(types.Scalar[string]()).Get(ctx)
	if err != nil {
		t.Fatalf("indexedmap: %v", err)
	}
	res := make([]fidRes, len(ops))
	var out []string
	var appended []uint64 // indexes assigned by append, in order
	type strm struct {
		perKey bool
		n      int
		next   func() (string, error)
		got    []string
	}
	var streams []*strm
	sctx, scancel := context.WithCancel(ctx)
	defer scancel()
	// IfVersion uses a version this client was given earlier for the same key of the same primitive (current or stale),
	// as the stores do; a version of another key is meaningless (and may coincide numerically in a partitioned runtime)
	verOfKey := func(ref int, pk string) (primitive.Version, bool) {
		for k := ref; k >= 0 && k < len(res); k-- {
			if res[k].ver != 0 && res[k].key == pk {
				return primitive.Version(res[k].ver), true
			}
		}
		return 0, false
	}
	for i, o := range ops {
		var d string
		switch o.Prim + "/" + o.Op {
		case "m/put":
			e, err := m.Put(ctx, o.Key, o.Val)
			d = fidErrClass(err)
			if e != nil {
				res[i].ver = uint64(e.Version)
				res[i].key = o.Prim + "/" + e.Key
				d += " " + e.Key + "=" + e.Value
			}
		case "m/insert":
			e, err := m.Insert(ctx, o.Key, o.Val)
			d = fidErrClass(err)
			if e != nil {
				res[i].ver = uint64(e.Version)
				res[i].key = o.Prim + "/" + e.Key
				d += " " + e.Key + "=" + e.Value
			}
		case "m/update":
			var opts []_map.UpdateOption
			if v, ok := verOfKey(o.Ref, "m/"+o.Key); ok {
				opts = append(opts, _map.IfVersion(v))
			}
			e, err := m.Update(ctx, o.Key, o.Val, opts...)
			d = fmt.Sprintf("%s ifv=%v", fidErrClass(err), len(opts) > 0)
			if e != nil {
				res[i].ver = uint64(e.Version)
				res[i].key = o.Prim + "/" + e.Key
				d += " " + e.Key + "=" + e.Value
			}
		case "m/get":
			e, err := m.Get(ctx, o.Key)
			d = fidErrClass(err)
			if e != nil {
				res[i].ver = uint64(e.Version)
				res[i].key = o.Prim + "/" + e.Key
				d += " " + e.Key + "=" + e.Value
			}
		case "m/remove":
			var opts []_map.RemoveOption
			if v, ok := verOfKey(o.Ref, "m/"+o.Key); ok {
				opts = append(opts, _map.IfVersion(v))
			}
			e, err := m.Remove(ctx, o.Key, opts...)
			d = fmt.Sprintf("%s ifv=%v", fidErrClass(err), len(opts) > 0)
			if e != nil {
				d += " " + e.Key + "=" + e.Value
			}
		case "m/list":
			st, err := m.List(ctx)
			d = fidErrClass(err)
			var items []string
			for err == nil {
				e, er := st.Next()
				if er == io.EOF {
					break
				}
				if er != nil {
					d += " stream:" + fidErrClass(er)
					break
				}
				items = append(items, e.Key+"="+e.Value)
				res[i].vers = append(res[i].vers, uint64(e.Version))
				res[i].keys = append(res[i].keys, o.Prim+"/"+e.Key)
			}
			sort.Strings(items)
			d += " [" + strings.Join(items, ",") + "]"
		case "m/events":
			var opts []_map.EventsOption
			if o.Key != "" {
				opts = append(opts, _map.WithKey[string](o.Key))
			}
			st, err := m.Events(sctx, opts...)
			d = fidErrClass(err) + " key=" + o.Key
			if err == nil {
				streams = append(streams, &strm{perKey: true, n: o.Stream, next: func() (string, error) {
					ev, er := st.Next()
					if er != nil {
						return "", er
					}
					switch e := ev.(type) {
					case *_map.Inserted[string, string]:
						return "ins " + e.Entry.Key + "=" + e.Entry.Value, nil
					case *_map.Updated[string, string]:
						return "upd " + e.Entry.Key + "=" + e.Entry.Value + " prev=" + e.PrevEntry.Value, nil
					case *_map.Removed[string, string]:
						return "rem " + e.Entry.Key + "=" + e.Entry.Value, nil
					}
					return fmt.Sprintf("?%T", ev), nil
				}})
			}
		case "m/tx":
			tx := m.Transaction(ctx)
			var td []string
			for _, q := range o.Tx {
				switch q.Op {
				case "insert":
					tx.Insert(q.Key, q.Val)
					td = append(td, "insert "+q.Key)
				case "update":
					if v, ok := verOfKey(q.Ref, "m/"+q.Key); ok {
						tx.Update(q.Key, q.Val, _map.IfVersion(v))
						td = append(td, "update-ifv "+q.Key)
					} else {
						tx.Update(q.Key, q.Val)
						td = append(td, "update "+q.Key)
					}
				case "remove":
					if v, ok := verOfKey(q.Ref, "m/"+q.Key); ok {
						tx.Remove(q.Key, _map.IfVersion(v))
						td = append(td, "remove-ifv "+q.Key)
					} else {
						tx.Remove(q.Key)
						td = append(td, "remove "+q.Key)
					}
				}
			}
			es, err := tx.Commit()
			// which of several failing operations of one Commit is reported depends on how the real runtime partitions
			// the keys: only success / failure is compared
			cls := "ok"
			if err != nil {
				cls = "failed"
				if c := fidErrClass(err); c != "AlreadyExists" && c != "NotFound" && c != "Conflict" {
					cls = c
				}
			}
			d = fmt.Sprintf("%s tx(%s) n=%d", cls, strings.Join(td, ";"), len(es))
			for _, e := range es {
				if e != nil {
					res[i].vers = append(res[i].vers, uint64(e.Version))
					res[i].keys = append(res[i].keys, o.Prim+"/"+e.Key)
					d += " " + e.Key + "=" + e.Value
				} else {
					d += " nil"
				}
			}
		case "im/append":
			e, err := im.Append(ctx, o.Key, o.Val)
			d = fidErrClass(err)
			if e != nil {
				res[i].ver = uint64(e.Version)
				res[i].key = o.Prim + "/" + e.Key
				appended = append(appended, uint64(e.Index))
				d += fmt.Sprintf(" %s=%s idx#%d", e.Key, e.Value, len(appended))
			}
		case "im/update":
			var opts []indexedmap.UpdateOption
			if v, ok := verOfKey(o.Ref, "im/"+o.Key); ok {
				opts = append(opts, indexedmap.IfVersion(v))
			}
			e, err := im.Update(ctx, o.Key, o.Val, opts...)
			d = fmt.Sprintf("%s ifv=%v", fidErrClass(err), len(opts) > 0)
			if e != nil {
				res[i].ver = uint64(e.Version)
				res[i].key = o.Prim + "/" + e.Key
				d += fmt.Sprintf(" %s=%s idx#%d", e.Key, e.Value, ordOf(appended, uint64(e.Index)))
			}
		case "im/get":
			e, err := im.Get(ctx, o.Key)
			d = fidErrClass(err)
			if e != nil {
				res[i].ver = uint64(e.Version)
				res[i].key = o.Prim + "/" + e.Key
				d += fmt.Sprintf(" %s=%s idx#%d", e.Key, e.Value, ordOf(appended, uint64(e.Index)))
			}
		case "im/getindex":
			idx := uint64(1 << 40)
			if o.Idx > 0 && o.Idx <= len(appended) {
				idx = appended[o.Idx-1]
			}
			e, err := im.GetIndex(ctx, indexedmap.Index(idx))
			d = fmt.Sprintf("%s #%d", fidErrClass(err), o.Idx)
			if e != nil {
				res[i].ver = uint64(e.Version)
				res[i].key = o.Prim + "/" + e.Key
				d += fmt.Sprintf(" %s=%s", e.Key, e.Value)
			}
		case "im/list":
			st, err := im.List(ctx)
			d = fidErrClass(err)
			var items []string
			for err == nil {
				e, er := st.Next()
				if er == io.EOF {
					break
				}
				if er != nil {
					d += " stream:" + fidErrClass(er)
					break
				}
				// order matters for an indexed map
				items = append(items, fmt.Sprintf("%s=%s#%d", e.Key, e.Value, ordOf(appended, uint64(e.Index))))
				res[i].vers = append(res[i].vers, uint64(e.Version))
				res[i].keys = append(res[i].keys, o.Prim+"/"+e.Key)
			}
			d += " [" + strings.Join(items, ",") + "]"
		case "im/events":
			st, err := im.Events(sctx)
			d = fidErrClass(err)
			if err == nil {
				streams = append(streams, &strm{n: o.Stream, next: func() (string, error) {
					ev, er := st.Next()
					if er != nil {
						return "", er
					}
					switch e := ev.(type) {
					case *indexedmap.Inserted[string, string]:
						return fmt.Sprintf("ins %s=%s#%d", e.Entry.Key, e.Entry.Value, ordOf(appended, uint64(e.Entry.Index))), nil
					case *indexedmap.Updated[string, string]:
						return fmt.Sprintf("upd %s=%s#%d prev=%s", e.Entry.Key, e.Entry.Value, ordOf(appended, uint64(e.Entry.Index)), e.PrevEntry.Value), nil
					case *indexedmap.Removed[string, string]:
						return fmt.Sprintf("rem %s=%s", e.Entry.Key, e.Entry.Value), nil
					}
					return fmt.Sprintf("?%T", ev), nil
				}})
			}
		}
		res[i].desc = d
		out = append(out, fmt.Sprintf("%3d %s/%s %s %s", i, o.Prim, o.Op, o.Key, d))
		if o.Op == "tx" && len(o.Tx) > 1 && strings.HasPrefix(d, "failed") {
			// A failed Commit over several keys leaves the keys it had already prepared locked in the real runtime (later
			// writes to them answer Conflict): that residue is not part of the contract the fake implements (all or nothing,
			// no residue) and nothing after it is comparable. The sequence ends here for both runtimes.
			out = append(out, "stop: failed multi-key transaction")
			break
		}
	}
	// the order relation between the versions returned for one key (raw numbers differ between the two runtimes, and the
	// real runtime is partitioned: versions of different keys are not comparable there)
	type vr struct {
		i, j int
		v    uint64
	}
	byKey := map[string][]vr{}
	for i := range res {
		if res[i].ver != 0 {
			byKey[res[i].key] = append(byKey[res[i].key], vr{i, -1, res[i].ver})
		}
		for j, v := range res[i].vers {
			byKey[res[i].keys[j]] = append(byKey[res[i].keys[j]], vr{i, j, v})
		}
	}
	var ranks []string
	for key, all := range byKey {
		sort.SliceStable(all, func(a, b int) bool { return all[a].v < all[b].v })
		rank := 0
		for k, x := range all {
			if k > 0 && x.v != all[k-1].v {
				rank++
			}
			// (the position inside a listing or a commit result is not part of the label: map listings are unordered)
			ranks = append(ranks, fmt.Sprintf("%s@%d:r%d", key, x.i, rank))
		}
	}
	sort.Strings(ranks)
	out = append(out, "version-order "+strings.Join(ranks, " "))
	// drain the event streams
	if settle != nil {
		settle()
	}
	for _, s := range streams {
		s := s
		done := make(chan struct{})
		go func() {
			defer close(done)
			for {
				e, err := s.next()
				if err != nil {
					return
				}
				s.got = append(s.got, e)
			}
		}()
		_ = done
	}
	time.Sleep(300 * time.Millisecond)
	if settle != nil {
		settle()
	}
	time.Sleep(200 * time.Millisecond)
	scancel()
	time.Sleep(50 * time.Millisecond)
	for _, s := range streams {
		if s.perKey {
			// Map events: the order between events of different keys is not defined by the real runtime (keys live in
			// different partitions; the events of one Commit arrive in partition order) - compared per key
			proj := map[string][]string{}
			for _, e := range s.got {
				f := strings.Fields(e)
				k := strings.SplitN(f[1], "=", 2)[0]
				proj[k] = append(proj[k], e)
			}
			var ks []string
			for k := range proj {
				ks = append(ks, k)
			}
			sort.Strings(ks)
			var parts []string
			for _, k := range ks {
				parts = append(parts, strings.Join(proj[k], " | "))
			}
			out = append(out, fmt.Sprintf("stream %d (per key, %d events): %s", s.n, len(s.got), strings.Join(parts, " || ")))
			continue
		}
		out = append(out, fmt.Sprintf("stream %d: %s", s.n, strings.Join(s.got, " | ")))
	}
	return out
}

func ordOf(appended []uint64, idx uint64) int {
	for i, a := range appended {
		if a == idx {
			return i + 1
		}
	}
	return -1
}

func TestAtomixFidelity(t *testing.T) {
	n := envInt("VERIF_FID_SEEDS", 40)
	base := envInt("VERIF_FID_BASE", 1)
	bad := 0
	for s := 0; s < n; s++ {
		seed := int64(base*1000 + s)
		ops := genFidOps(rand.New(rand.NewSource(seed)), 60)
		// real in-memory Atomix
		rc := atest.NewClient()
		real := runFid(t, rc, ops, nil)
		rc.Close()
		// fake runtime, kernel driven by a free-running stepper
		k := NewKernel(&Sched{Policy: "fifo", Vec: []uint32{}})
		rt := NewRuntime(k, nil)
		fc := rt.NewClient()
		stop := make(chan struct{})
		stopped := make(chan struct{})
		go func() {
			defer close(stopped)
			for {
				select {
				case <-stop:
					return
				default:
				}
				if !k.Step() {
					time.Sleep(50 * time.Microsecond)
				}
			}
		}()
		fake := runFid(t, fc, ops, nil)
		close(stop)
		<-stopped
		fc.Close()
		rt.Stop()
		if strings.Join(real, "\n") != strings.Join(fake, "\n") {
			bad++
			t.Errorf("seed %d: the fake Atomix runtime and the SDK's in-memory Atomix disagree", seed)
			for i := 0; i < len(real) || i < len(fake); i++ {
				var a, b string
				if i < len(real) {
					a = real[i]
				}
				if i < len(fake) {
					b = fake[i]
				}
				if a != b {
					t.Logf("  real: %s\n  fake: %s", a, b)
				}
			}
			if bad >= 3 {
				break
			}
		}
	}
	fmt.Printf("fidelity: %d seeds x up to 60 operations compared (fake Atomix runtime vs go-sdk/pkg/test in-memory Atomix), %d disagreements\n", n, bad)
}
