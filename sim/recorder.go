package sim

// Recorder: decodes durable records after every write and feeds step monitors. Read-only with respect to the system.

import (
	"fmt"
	"os"
	"sort"
	"strings"

	configapi "github.com/onosproject/onos-api/go/onos/config/v2"
	topoapi "github.com/onosproject/onos-api/go/onos/topo"
)

// Hooks monitors may implement.
type (
	TxMonitor interface {
		OnTx(old, new *configapi.Transaction, w WriteRec)
	}
	PropMonitor interface {
		OnProp(old, new *configapi.Proposal, w WriteRec)
	}
	CfgMonitor interface {
		OnCfg(old, new *configapi.Configuration, w WriteRec)
	}
	ValsMonitor interface {
		OnVals(cfgID string, keys []string, w WriteRec)
	}
	DevMonitor interface {
		OnDevSet(target string, r *DevReq)
	}
	TopoMonitor interface {
		OnTopo(ev topoapi.Event, task string)
	}
	ReturnMonitor  interface{ OnReturn(c *Call) }
	StepMonitor    interface{ AfterStep() }
	CrashMonitor   interface{ OnCrash() }
	ConnMonitor    interface{ OnConnFault(target, kind string) }
	QuiesceMonitor interface{ AtQuiescence() }
)

// Recorder mirrors the durable records.
type Recorder struct {
	s     *Sys
	Txs   map[uint64]*configapi.Transaction
	TxIDs map[string]uint64
	Props map[string]*configapi.Proposal
	Cfgs  map[string]*configapi.Configuration
	// Vals[cfgID][path] = committed path value (the store keeps committed and applied values in one Atomix map)
	Vals    map[string]map[string]*configapi.PathValue
	MaxTx   uint64
	TxCall  map[uint64]int  // log index -> scenario call that appended it
	States  map[string]bool // distinct abstract states seen
	lastAbs string
}

// NewRecorder attaches a recorder to the world.
func NewRecorder(s *Sys) *Recorder {
	r := &Recorder{s: s, Txs: map[uint64]*configapi.Transaction{}, TxIDs: map[string]uint64{}, Props: map[string]*configapi.Proposal{},
		TxCall: map[uint64]int{}, Cfgs: map[string]*configapi.Configuration{}, Vals: map[string]map[string]*configapi.PathValue{}, States: map[string]bool{}}
	s.RT.OnWrite = r.onWrite
	s.Topo.OnWrite = func(ev topoapi.Event, task string) {
		for _, m := range s.Mon {
			if x, ok := m.(TopoMonitor); ok {
				x.OnTopo(ev, task)
			}
		}
	}
	for t, d := range s.Devs {
		t := t
		d.OnSet = func(q *DevReq) {
			q.Conn = s.K.Name("conn", q.Conn)
			for _, m := range s.Mon {
				if x, ok := m.(DevMonitor); ok {
					x.OnDevSet(t, q)
				}
			}
		}
	}
	return r
}

func (r *Recorder) onWrite(w WriteRec) {
	p := r.s.RT.P(w.Prim)
	switch {
	case w.Prim == "transactions":
		for _, k := range w.Keys {
			e := p.Entries[k]
			if e == nil {
				continue
			}
			tx := &configapi.Transaction{}
			if err := tx.Unmarshal(e.Val); err != nil {
				r.s.Report("HARNESS", "decode", "transaction", err.Error())
				continue
			}
			tx.Index = configapi.Index(e.Index)
			tx.Version = e.Ver
			old := r.Txs[e.Index]
			if w.Op == "append" && strings.HasPrefix(w.Task, "cli/") {
				// exact association of a logged transaction with the client call whose handler appended it
				var n int
				if _, err := fmt.Sscanf(w.Task, "cli/%d", &n); err == nil {
					r.TxCall[e.Index] = n
				}
			}
			r.Txs[e.Index] = tx
			r.TxIDs[string(tx.ID)] = e.Index
			if e.Index > r.MaxTx {
				r.MaxTx = e.Index
			}
			for _, m := range r.s.Mon {
				if x, ok := m.(TxMonitor); ok {
					x.OnTx(old, tx, w)
				}
			}
		}
	case w.Prim == "proposals":
		for _, k := range w.Keys {
			e := p.Entries[k]
			if e == nil {
				continue
			}
			pr := &configapi.Proposal{}
			if err := pr.Unmarshal(e.Val); err != nil {
				r.s.Report("HARNESS", "decode", "proposal", err.Error())
				continue
			}
			pr.Version = e.Ver
			old := r.Props[k]
			r.Props[k] = pr
			for _, m := range r.s.Mon {
				if x, ok := m.(PropMonitor); ok {
					x.OnProp(old, pr, w)
				}
			}
		}
	case w.Prim == "configurations":
		for _, k := range w.Keys {
			e := p.Entries[k]
			if e == nil {
				continue
			}
			c := &configapi.Configuration{}
			if err := c.Unmarshal(e.Val); err != nil {
				r.s.Report("HARNESS", "decode", "configuration", err.Error())
				continue
			}
			c.Version = e.Ver
			old := r.Cfgs[k]
			r.Cfgs[k] = c
			for _, m := range r.s.Mon {
				if x, ok := m.(CfgMonitor); ok {
					x.OnCfg(old, c, w)
				}
			}
		}
	case strings.HasPrefix(w.Prim, "configurations-"):
		id := strings.TrimPrefix(w.Prim, "configurations-")
		vals := map[string]*configapi.PathValue{}
		for k, e := range p.Entries {
			pv := &configapi.PathValue{}
			if err := pv.Unmarshal(e.Val); err == nil {
				vals[k] = pv
			}
		}
		r.Vals[id] = vals
		var keys []string
		for _, k := range w.Keys {
			keys = append(keys, strings.TrimLeft(k, "+-="))
		}
		for _, m := range r.s.Mon {
			if x, ok := m.(ValsMonitor); ok {
				x.OnVals(id, keys, w)
			}
		}
	}
}

// CfgID returns the configuration id of a target under the synthetic model.
func CfgID(target string) string {
	typ, ver := ModelOf(target)
	return fmt.Sprintf("%s-%s-%s", target, typ, ver)
}

// OnReturn forwards a client-call return to monitors.
func (r *Recorder) OnReturn(c *Call) {
	for _, m := range r.s.Mon {
		if x, ok := m.(ReturnMonitor); ok {
			x.OnReturn(c)
		}
	}
}

// OnCrash forwards a crash.
func (r *Recorder) OnCrash() {
	for _, m := range r.s.Mon {
		if x, ok := m.(CrashMonitor); ok {
			x.OnCrash()
		}
	}
}

// OnConnFault forwards a connection fault.
func (r *Recorder) OnConnFault(target, kind string) {
	for _, m := range r.s.Mon {
		if x, ok := m.(ConnMonitor); ok {
			x.OnConnFault(target, kind)
		}
	}
}

// AfterStep runs step monitors and records the abstract state.
func (r *Recorder) AfterStep() {
	for _, m := range r.s.Mon {
		if x, ok := m.(StepMonitor); ok {
			x.AfterStep()
		}
	}
	if len(r.States) < 200000 {
		a := r.Abstract()
		if a != r.lastAbs {
			r.lastAbs = a
			r.States[a] = true
		}
	}
}

// Quiesce runs the quiescence oracles.
func (r *Recorder) Quiesce() {
	for _, m := range r.s.Mon {
		if x, ok := m.(QuiesceMonitor); ok {
			x.AtQuiescence()
		}
	}
}

// Abstract renders the abstract state: phases of all transactions/proposals, configuration cursors.
func (r *Recorder) Abstract() string {
	var sb strings.Builder
	for i := uint64(1); i <= r.MaxTx; i++ {
		if tx := r.Txs[i]; tx != nil {
			fmt.Fprintf(&sb, "t%d:%s;", i, TxPhase(tx))
		}
	}
	pk := make([]string, 0, len(r.Props))
	for k := range r.Props {
		pk = append(pk, k)
	}
	sort.Strings(pk)
	for _, k := range pk {
		fmt.Fprintf(&sb, "p%s:%s;", k, PropPhase(r.Props[k]))
	}
	ck := make([]string, 0, len(r.Cfgs))
	for k := range r.Cfgs {
		ck = append(ck, k)
	}
	sort.Strings(ck)
	for _, k := range ck {
		c := r.Cfgs[k]
		fmt.Fprintf(&sb, "c%s:%d/%d/%d/%d/%d/%s;", c.TargetID, c.Status.Proposed.Index, c.Status.Committed.Index, c.Status.Applied.Index,
			c.Status.Mastership.Term, c.Status.Applied.Mastership.Term, c.Status.State)
	}
	return sb.String()
}

// TxPhase summarises a transaction's phase.
func TxPhase(tx *configapi.Transaction) string {
	ph := tx.Status.Phases
	s := tx.Status.State.String()
	switch {
	case ph.Apply != nil:
		return s + "/apply:" + ph.Apply.State.String()
	case ph.Abort != nil:
		return s + "/abort:" + ph.Abort.State.String()
	case ph.Commit != nil:
		return s + "/commit:" + ph.Commit.State.String()
	case ph.Validate != nil:
		return s + "/validate:" + ph.Validate.State.String()
	case ph.Initialize != nil:
		return s + "/init:" + ph.Initialize.State.String()
	}
	return s + "/new"
}

// PropPhase summarises a proposal's phase.
func PropPhase(p *configapi.Proposal) string {
	ph := p.Status.Phases
	suffix := fmt.Sprintf("(prev=%d,next=%d)", p.Status.PrevIndex, p.Status.NextIndex)
	switch {
	case ph.Apply != nil:
		return "apply:" + ph.Apply.State.String() + suffix
	case ph.Abort != nil:
		return "abort:" + ph.Abort.State.String() + suffix
	case ph.Commit != nil:
		return "commit:" + ph.Commit.State.String() + suffix
	case ph.Validate != nil:
		return "validate:" + ph.Validate.State.String() + suffix
	case ph.Initialize != nil:
		return "init:" + ph.Initialize.State.String() + suffix
	}
	return "new" + suffix
}

// TxFinal reports whether a transaction is in a final state: APPLIED, or FAILED with its abort (if any) finished.
func TxFinal(tx *configapi.Transaction) bool {
	switch tx.Status.State {
	case configapi.TransactionStatus_APPLIED:
		return true
	case configapi.TransactionStatus_FAILED:
		if tx.Status.Phases.Abort != nil {
			return tx.Status.Phases.Abort.State == configapi.TransactionAbortPhase_ABORTED
		}
		return true
	}
	return false
}

// IndexOfCall finds the log index of the transaction created by scenario call i (matching on content), 0 if unknown.
func (r *Recorder) IndexOfCall(i int) uint64 {
	if i < 0 || i >= len(r.s.Calls) || r.s.Calls[i] == nil {
		return 0
	}
	if r.s.Calls[i].TxIndex != 0 {
		return r.s.Calls[i].TxIndex
	}
	return r.s.callIndex[i]
}

// Summary renders the final state for diagnostics.
func (r *Recorder) Summary() string {
	var sb strings.Builder
	for i := uint64(1); i <= r.MaxTx; i++ {
		if tx := r.Txs[i]; tx != nil {
			f := ""
			if tx.Status.Failure != nil {
				f = "(" + tx.Status.Failure.Type.String() + ")"
			}
			fmt.Fprintf(&sb, "tx%d:%s%s ", i, TxPhase(tx), f)
		}
	}
	pk := make([]string, 0, len(r.Props))
	for k := range r.Props {
		pk = append(pk, k)
	}
	sort.Strings(pk)
	for _, k := range pk {
		fmt.Fprintf(&sb, "| %s %s ", k, PropPhase(r.Props[k]))
	}
	ck := make([]string, 0, len(r.Cfgs))
	for k := range r.Cfgs {
		ck = append(ck, k)
	}
	sort.Strings(ck)
	for _, k := range ck {
		c := r.Cfgs[k]
		fmt.Fprintf(&sb, "| cfg %s idx=%d prop=%d com=%d app=%d term=%d/%d master=%s %s ", c.TargetID, c.Index, c.Status.Proposed.Index, c.Status.Committed.Index,
			c.Status.Applied.Index, c.Status.Mastership.Term, c.Status.Applied.Mastership.Term, r.s.K.Canon(c.Status.Mastership.Master), c.Status.State)
	}
	if os.Getenv("VERIF_VERBOSE") != "" {
		for t, d := range r.s.Devs {
			fmt.Fprintf(&sb, "| devlog %s:", t)
			for _, q := range d.Log {
				fmt.Fprintf(&sb, " [step %d #%d %s conn=%s el=%d %s ops=%v]", q.Step, q.N, q.Task, q.Conn, q.Election, q.Outcome, q.Ops)
			}
		}
		for id, vals := range r.Vals {
			ks := make([]string, 0, len(vals))
			for k := range vals {
				ks = append(ks, k)
			}
			sort.Strings(ks)
			fmt.Fprintf(&sb, "| vals %s:", id)
			for _, k := range ks {
				fmt.Fprintf(&sb, " %s(del=%v,idx=%d)", k, vals[k].Deleted, vals[k].Index)
			}
		}
	}
	for i, c := range r.s.Calls {
		if c == nil {
			fmt.Fprintf(&sb, "| call%d:not-started ", i)
			continue
		}
		st := "BLOCKED"
		if c.Returned {
			st = "ok"
			if c.Err != nil {
				st = "err:" + grpcCode(c.Err).String()
			}
		}
		if c.Cut {
			// the call was in flight when its server process stopped: which error the dying process's gRPC layer hands
			// the caller (Canceled, Unavailable) is decided by real goroutine timing and means nothing
			if c.Returned {
				st = "cut"
			} else {
				st += "(cut)"
			}
		}
		fmt.Fprintf(&sb, "| call%d:%s:%s tx=%d ", i, c.Op.Kind, st, c.TxIndex)
	}
	return sb.String()
}
