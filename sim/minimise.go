package sim

// Plan minimisation: reduce scenario, faults, operation content and the schedule vector while the same violation
// signature persists.

import (
	"testing"
	"time"
)

// hasSig reports whether the result contains the signature.
func hasSig(r *Result, sig string) bool {
	for _, v := range r.Viol {
		if v.Sig == sig {
			return true
		}
	}
	return false
}

// dropOp removes scenario op i, fixing references; nil if a remaining op depends on it by index.
func dropOp(p *Plan, i int) *Plan {
	q := p.Clone()
	for j := range q.Scenario {
		if j != i && q.Scenario[j].Kind == "rollback" && q.Scenario[j].Of == i {
			return nil
		}
	}
	q.Scenario = append(q.Scenario[:i], q.Scenario[i+1:]...)
	for j := range q.Scenario {
		o := &q.Scenario[j]
		if o.WaitFor == i {
			o.WaitFor = -1
		} else if o.WaitFor > i {
			o.WaitFor--
		}
		if o.Kind == "rollback" && o.Of > i {
			o.Of--
		}
	}
	return q
}

// Minimise reduces plan while sig persists. budget bounds the number of candidate runs and the wall time.
func Minimise(t *testing.T, plan *Plan, sig string, maxRuns int, maxWall time.Duration) (*Plan, *Result, int) {
	start := time.Now()
	runs := 0
	var bestRes *Result
	try := func(c *Plan) bool {
		if c == nil || runs >= maxRuns || time.Since(start) > maxWall {
			return false
		}
		runs++
		cc := c.Clone()
		r := RunPlan(t, cc)
		if r.Harness == "" && hasSig(r, sig) {
			bestRes = r
			bestRes.Plan = cc
			return true
		}
		return false
	}
	best := plan.Clone()
	if !try(best) {
		return nil, nil, runs
	}
	// freeze the schedule as an explicit vector
	if best.Sched.Vec == nil {
		c := best.Clone()
		c.Sched.Vec = append([]uint32{}, bestRes.Used...)
		if try(c) {
			best = c
		}
	}
	changed := true
	for changed && runs < maxRuns {
		changed = false
		// 1. drop client ops (from the end)
		for i := len(best.Scenario) - 1; i >= 0; i-- {
			c := dropOp(best, i)
			if try(c) {
				best, changed = c, true
				continue
			}
			// the explicit vector may have lost its meaning: retry with the seeded stream
			if c != nil && c.Sched.Vec != nil {
				c2 := c.Clone()
				c2.Sched.Vec = nil
				if try(c2) {
					c2.Sched.Vec = append([]uint32{}, bestRes.Used...)
					best, changed = c2, true
				}
			}
		}
		// 2. drop faults
		for i := len(best.Faults) - 1; i >= 0; i-- {
			c := best.Clone()
			c.Faults = append(c.Faults[:i], c.Faults[i+1:]...)
			if try(c) {
				best, changed = c, true
			}
		}
		// 3. shrink op content: drop targets, drop single operations
		for i := range best.Scenario {
			if best.Scenario[i].Kind != "set" {
				continue
			}
			for _, tg := range sortedKeys(best.Scenario[i].Targets) {
				if len(best.Scenario[i].Targets) > 1 {
					c := best.Clone()
					delete(c.Scenario[i].Targets, tg)
					if try(c) {
						best, changed = c, true
						continue
					}
				}
				for j := len(best.Scenario[i].Targets[tg]) - 1; j >= 0 && len(best.Scenario[i].Targets[tg]) > 1; j-- {
					c := best.Clone()
					ops := c.Scenario[i].Targets[tg]
					c.Scenario[i].Targets[tg] = append(ops[:j], ops[j+1:]...)
					if try(c) {
						best, changed = c, true
					}
				}
			}
		}
		// 4. knobs towards defaults
		if best.Knobs.MapSeed != 0 {
			c := best.Clone()
			c.Knobs.MapSeed = 0
			if try(c) {
				best, changed = c, true
			}
		}
		if best.Knobs.CancelLate != 0 {
			c := best.Clone()
			c.Knobs.CancelLate = 0
			if try(c) {
				best, changed = c, true
			}
		}
		for i := len(best.Knobs.Observers) - 1; i >= 0; i-- {
			c := best.Clone()
			c.Knobs.Observers = append(c.Knobs.Observers[:i], c.Knobs.Observers[i+1:]...)
			if try(c) {
				best, changed = c, true
			}
		}
		if best.Knobs.SharedChannel {
			c := best.Clone()
			c.Knobs.SharedChannel = false
			if try(c) {
				best, changed = c, true
			}
		}
		if len(best.Knobs.LateAck) > 0 {
			c := best.Clone()
			c.Knobs.LateAck = nil
			if try(c) {
				best, changed = c, true
			}
		}
		if len(best.Knobs.ConnLate) > 0 {
			c := best.Clone()
			c.Knobs.ConnLate = nil
			if try(c) {
				best, changed = c, true
			}
		}
		// 5. schedule: truncate, then zero chunks
		if best.Sched.Vec != nil {
			for len(best.Sched.Vec) > 0 {
				c := best.Clone()
				c.Sched.Vec = c.Sched.Vec[:len(c.Sched.Vec)/2]
				if !try(c) {
					break
				}
				best, changed = c, true
			}
			for chunk := len(best.Sched.Vec) / 2; chunk >= 1; chunk /= 2 {
				for off := 0; off+chunk <= len(best.Sched.Vec); off += chunk {
					allZero := true
					for _, v := range best.Sched.Vec[off : off+chunk] {
						if v != 0 {
							allZero = false
						}
					}
					if allZero {
						continue
					}
					c := best.Clone()
					for k := off; k < off+chunk; k++ {
						c.Sched.Vec[k] = 0
					}
					if try(c) {
						best, changed = c, true
					}
				}
				if runs >= maxRuns || time.Since(start) > maxWall {
					break
				}
			}
		}
	}
	// final run of the best plan to get its result
	runs++
	fin := best.Clone()
	r := RunPlan(t, fin)
	if r.Harness != "" || !hasSig(r, sig) {
		return nil, nil, runs
	}
	r.Plan = best
	return best, r, runs
}

func sortedKeys[V any](m map[string]V) []string {
	out := make([]string, 0, len(m))
	for k := range m {
		out = append(out, k)
	}
	// insertion sort (tiny maps)
	for i := 1; i < len(out); i++ {
		for j := i; j > 0 && out[j] < out[j-1]; j-- {
			out[j], out[j-1] = out[j-1], out[j]
		}
	}
	return out
}
