package sim

// Log fold of the reference model: sequential gNMI semantics in transaction-log order, validation verdicts, rollback.

import (
	"fmt"
	"sort"
)

// MTx is one logged transaction as the model sees it.
type MTx struct {
	Index      uint64
	Call       int // scenario position, -1 if unknown
	Kind       string
	Ops        map[string][]MOp // change
	RollbackOf uint64           // rollback
	// results of the fold
	Commit  bool
	Fail    string // "", INVALID, FORBIDDEN, NOT_FOUND
	Targets []string
	Before  map[string]Tree
	After   map[string]Tree
}

type histEnt struct {
	index  uint64
	before Tree
}

// Model is the folded state.
type Model struct {
	Txs  map[uint64]*MTx
	Cfg  map[string]Tree
	Hist map[string][]histEnt
	Dev  map[string]Tree
}

// Fold folds transactions (sorted by index). decide, when non-nil, overrides the model's own commit verdict for a
// transaction (used by oracles that must follow what the system recorded rather than predict it); it is given the
// model's verdict and returns the verdict to use.
func Fold(txs []*MTx, decide func(tx *MTx, predicted bool) bool) *Model {
	m := &Model{Txs: map[uint64]*MTx{}, Cfg: map[string]Tree{}, Hist: map[string][]histEnt{}, Dev: map[string]Tree{}}
	sort.Slice(txs, func(i, j int) bool { return txs[i].Index < txs[j].Index })
	cfg := func(t string) Tree {
		if m.Cfg[t] == nil {
			m.Cfg[t] = Tree{}
		}
		return m.Cfg[t]
	}
	for _, tx := range txs {
		m.Txs[tx.Index] = tx
		tx.Before = map[string]Tree{}
		tx.After = map[string]Tree{}
		tx.Commit, tx.Fail = false, ""
		switch tx.Kind {
		case "change":
			tx.Targets = tx.Targets[:0]
			for t := range tx.Ops {
				tx.Targets = append(tx.Targets, t)
			}
			sort.Strings(tx.Targets)
			cand := map[string]Tree{}
			ok := true
			for _, t := range tx.Targets {
				c := cfg(t).Clone()
				c.ApplyOps(tx.Ops[t])
				cand[t] = c
				if c.InvalidFor(PoisonFor(t)) {
					ok = false
				}
			}
			if !ok {
				tx.Fail = "INVALID"
			}
			if decide != nil {
				ok = decide(tx, ok)
			}
			if ok {
				tx.Commit = true
				for _, t := range tx.Targets {
					tx.Before[t] = cfg(t)
					tx.After[t] = cand[t]
					m.Hist[t] = append(m.Hist[t], histEnt{index: tx.Index, before: cfg(t)})
					m.Cfg[t] = cand[t]
				}
			}
		case "rollback":
			target := m.Txs[tx.RollbackOf]
			ok := true
			switch {
			case target == nil:
				ok, tx.Fail = false, "NOT_FOUND"
			case target.Kind != "change":
				ok, tx.Fail = false, "FORBIDDEN"
			case !target.Commit:
				ok, tx.Fail = false, "FORBIDDEN"
				tx.Targets = target.Targets
			default:
				tx.Targets = target.Targets
				for _, t := range target.Targets {
					h := m.Hist[t]
					if len(h) == 0 || h[len(h)-1].index != target.Index {
						ok, tx.Fail = false, "FORBIDDEN"
					}
				}
			}
			if decide != nil {
				ok = decide(tx, ok)
			}
			if ok && target != nil && target.Kind == "change" {
				tx.Commit = true
				for _, t := range target.Targets {
					h := m.Hist[t]
					tx.Before[t] = cfg(t)
					var restored Tree
					if len(h) > 0 && h[len(h)-1].index == target.Index {
						restored = h[len(h)-1].before
						m.Hist[t] = h[:len(h)-1]
					} else {
						// the system rolled back something the model considers illegal; follow it as well as possible
						restored = target.Before[t]
						if restored == nil {
							restored = cfg(t)
						}
					}
					tx.After[t] = restored
					m.Cfg[t] = restored
				}
			}
		}
	}
	return m
}

// ApplyDelta applies to dev the device-visible delta of a committed transaction on target t.
func (tx *MTx) ApplyDelta(t string, dev Tree) {
	if tx.Kind == "change" {
		dev.ApplyOps(tx.Ops[t])
		return
	}
	before, after := tx.Before[t], tx.After[t]
	for k, l := range before {
		if a, ok := after[k]; !ok {
			delete(dev, l.P.K())
		} else if a.V != l.V {
			dev.Set(a.P, a.V)
		}
	}
	for k, a := range after {
		if _, ok := before[k]; !ok {
			dev.Set(a.P, a.V)
		}
	}
}

// Describe renders a model transaction.
func (tx *MTx) Describe() string {
	if tx.Kind == "rollback" {
		return fmt.Sprintf("tx%d rollback(%d)", tx.Index, tx.RollbackOf)
	}
	return fmt.Sprintf("tx%d change%v", tx.Index, tx.Ops)
}
