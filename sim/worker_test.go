//go:debug randseednop=0
package sim

// Worker entry points. The driver (cmd/check) runs this test binary as worker processes:
//   sim.test -test.run '^TestWorker$' with env VERIF_PROP, VERIF_TIER, VERIF_BASE (base seed), VERIF_FROM, VERIF_TO
//   (run ordinals), VERIF_OUT (jsonl path). TestReplay / TestMinimise serve single plans.

import (
	"bufio"
	"encoding/json"
	"fmt"
	"os"
	"strconv"
	"testing"
	"time"

	"github.com/onosproject/onos-lib-go/pkg/logging"
)

func envInt(name string, def int) int {
	if v := os.Getenv(name); v != "" {
		if n, err := strconv.Atoi(v); err == nil {
			return n
		}
	}
	return def
}

func envU64(name string, def uint64) uint64 {
	if v := os.Getenv(name); v != "" {
		if n, err := strconv.ParseUint(v, 10, 64); err == nil {
			return n
		}
	}
	return def
}

// RunSeed derives the per-run seed from (base seed, property, ordinal).
func RunSeed(base uint64, prop string, r int) uint64 {
	x := base
	for _, c := range []byte(prop) {
		x = x*1099511628211 ^ uint64(c)
	}
	x ^= uint64(r) * 0x9e3779b97f4a7c15
	return splitmix(&x)
}

func quiet() {
	logging.SetLevel(logging.FatalLevel)
}

// TestWorker runs a range of seeds of one property and writes one JSON line per run.
func TestWorker(t *testing.T) {
	prop := os.Getenv("VERIF_PROP")
	if prop == "" {
		t.Skip("no VERIF_PROP")
	}
	quiet()
	tier := os.Getenv("VERIF_TIER")
	if tier == "" {
		tier = "quick"
	}
	base := envU64("VERIF_BASE", 1)
	from, to := envInt("VERIF_FROM", 0), envInt("VERIF_TO", 10)
	prof := Profiles[prop]
	if prof == nil {
		t.Fatalf("unknown property %s", prop)
	}
	var w *bufio.Writer
	if out := os.Getenv("VERIF_OUT"); out != "" {
		f, err := os.Create(out)
		if err != nil {
			t.Fatal(err)
		}
		defer f.Close()
		w = bufio.NewWriter(f)
		defer w.Flush()
	} else {
		w = bufio.NewWriter(os.Stdout)
		defer w.Flush()
	}
	verbose := os.Getenv("VERIF_VERBOSE") != ""
	for r := from; r < to; r++ {
		var plan *Plan
		if prof.GenOrd != nil {
			plan = prof.GenOrd(base, r, tier)
		} else {
			plan = prof.Gen(RunSeed(base, prop, r), tier)
		}
		if cur := os.Getenv("VERIF_OUT"); cur != "" {
			// remember the plan being run: if a goroutine of the code under test panics, the process dies with it
			pb, _ := json.Marshal(plan)
			_ = os.WriteFile(cur+".current", pb, 0644)
		}
		res := RunPlan(t, plan)
		full := verbose || len(res.Viol) > 0 || res.Harness != "" || r%50 == 0
		if full {
			if res.Extra == nil {
				res.Extra = map[string]string{}
			}
			res.Extra["rule"] = prof.Rule
		}
		line := workerLine(r, res, full)
		b, _ := json.Marshal(line)
		w.Write(b)
		w.WriteByte('\n')
		if len(res.Viol) > 0 || res.Harness != "" {
			w.Flush()
		}
	}
}

// WorkerLine is the per-run record a worker emits.
type WorkerLine struct {
	Run    int      `json:"run"`
	Res    *Result  `json:"res"`
	Trace  []string `json:"trace,omitempty"`
	Used   []uint32 `json:"used,omitempty"`
	States []string `json:"states,omitempty"`
}

func workerLine(r int, res *Result, full bool) *WorkerLine {
	l := &WorkerLine{Run: r, Res: res, States: res.StateHashes}
	if full {
		l.Trace = res.Trace
		l.Used = res.Used
	} else {
		// keep the plan small in the common case
		cp := *res
		cp.Plan = &Plan{Property: res.Plan.Property, Profile: res.Plan.Profile, Seed: res.Plan.Seed, Sched: Sched{Policy: res.Plan.Sched.Policy}}
		l.Res = &cp
	}
	return l
}

// TestReplay runs the plan in VERIF_PLAN (a replay file or a bare plan) once and prints the result as JSON.
func TestReplay(t *testing.T) {
	path := os.Getenv("VERIF_PLAN")
	if path == "" {
		t.Skip("no VERIF_PLAN")
	}
	if os.Getenv("VERIF_LOG") == "" {
		quiet()
	}
	b, err := os.ReadFile(path)
	if err != nil {
		t.Fatal(err)
	}
	var rf struct {
		Plan *Plan `json:"plan"`
	}
	if err := json.Unmarshal(b, &rf); err != nil || rf.Plan == nil {
		rf.Plan = &Plan{}
		if err := json.Unmarshal(b, rf.Plan); err != nil {
			t.Fatal(err)
		}
	}
	res := RunPlan(t, rf.Plan)
	out := workerLine(0, res, true)
	ob, _ := json.Marshal(out)
	if p := os.Getenv("VERIF_OUT"); p != "" {
		_ = os.WriteFile(p, ob, 0644)
	} else {
		fmt.Println(string(ob))
	}
	if os.Getenv("VERIF_VERBOSE") != "" {
		for _, l := range res.Trace {
			fmt.Fprintln(os.Stderr, l)
		}
		fmt.Fprintln(os.Stderr, res.Summary)
		for _, v := range res.Viol {
			fmt.Fprintf(os.Stderr, "VIOL %s: %s\n", v.Sig, v.Msg)
		}
	}
}

// TestMinimise minimises the plan in VERIF_PLAN for signature VERIF_SIG and writes {plan, result} to VERIF_OUT.
func TestMinimise(t *testing.T) {
	path := os.Getenv("VERIF_PLAN")
	sig := os.Getenv("VERIF_SIG")
	if path == "" || sig == "" {
		t.Skip("no VERIF_PLAN / VERIF_SIG")
	}
	quiet()
	b, err := os.ReadFile(path)
	if err != nil {
		t.Fatal(err)
	}
	plan := &Plan{}
	if err := json.Unmarshal(b, plan); err != nil {
		t.Fatal(err)
	}
	best, res, runs := Minimise(t, plan, sig, envInt("VERIF_MIN_RUNS", 400), time.Duration(envInt("VERIF_MIN_WALL_S", 90))*time.Second)
	out := map[string]any{"runs": runs}
	if best != nil {
		out["plan"] = best
		out["line"] = workerLine(0, res, true)
	}
	ob, _ := json.Marshal(out)
	if p := os.Getenv("VERIF_OUT"); p != "" {
		_ = os.WriteFile(p, ob, 0644)
	} else {
		fmt.Println(string(ob))
	}
}
