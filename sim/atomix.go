package sim

// Fake Atomix runtime: gRPC Map / IndexedMap services over bufconn. Durable state of the simulation. Every RPC parks on
// the kernel until released; events travel through per-subscription FIFOs released one at a time.

import (
	"context"
	"fmt"
	"net"
	"sort"
	"strings"
	"sync"

	aerr "github.com/atomix/atomix/api/errors"
	imapv1 "github.com/atomix/atomix/api/runtime/indexedmap/v1"
	mapv1 "github.com/atomix/atomix/api/runtime/map/v1"
	"github.com/atomix/atomix/runtime/pkg/utils/grpc/interceptors"
	"google.golang.org/grpc"
	"google.golang.org/grpc/credentials/insecure"
	"google.golang.org/grpc/test/bufconn"
)

// Ent is one durable entry.
type Ent struct {
	Key   string
	Index uint64
	Val   []byte
	Ver   uint64
}

// Prim is one primitive's durable state.
type Prim struct {
	Name    string
	Entries map[string]*Ent
	ByIndex map[uint64]*Ent
	Last    uint64
	subs    []*asub
	nsubs   int
}

type asub struct {
	name string
	key  string
	kind int // 0 map events, 1 imap events, 2 map entries-watch
	ch   chan any
	fifo []any
	dead bool
}

// WriteRec describes one durable Atomix write (for monitors).
type WriteRec struct {
	Step int
	N    int // ordinal among all durable effects
	Prim string
	Op   string
	Keys []string
	Task string
}

// Runtime is the fake Atomix runtime.
type Runtime struct {
	k      *Kernel
	mu     sync.Mutex
	Prims  map[string]*Prim
	Ver    uint64
	Writes int
	lis    *bufconn.Listener
	srv    *grpc.Server
	// OpFaults maps the ordinal of a write operation (1-based, counted at execution) to "unavail" | "acklost".
	OpFaults map[int]string
	// NoParkSubscribe names primitives whose event-stream opens are served without parking (see subscribe).
	NoParkSubscribe func(prim string) bool
	// KindCount counts executed writes by "<primitive>/<rpc>" (fault trigger after-write)
	KindCount map[string]int
	// LateAck selects write operations whose acknowledgement is a scheduled action of its own ("ack/..."): the write has
	// taken effect and its events flow while the caller still waits for the response (slow response, descheduled caller).
	LateAck   func(prim, op, key string) bool
	immediate sync.Mutex
	// OnWrite is called (on the scheduler goroutine) after every durable write.
	OnWrite func(w WriteRec)
	// Effects is shared with other fakes through the kernel-level counter.
	Eff *Effects
}

// Effects counts durable effects across all fakes (atomix writes, topo writes, device sets).
type Effects struct {
	N   int
	Log []string
}

func (e *Effects) Add(s string) int {
	e.N++
	if len(e.Log) < 4096 {
		e.Log = append(e.Log, s)
	}
	return e.N
}

// NewRuntime starts the fake runtime (inside the bubble).
func NewRuntime(k *Kernel, eff *Effects) *Runtime {
	r := &Runtime{k: k, Prims: map[string]*Prim{}, lis: bufconn.Listen(1 << 20), OpFaults: map[int]string{}, Eff: eff}
	r.srv = grpc.NewServer(
		grpc.ChainUnaryInterceptor(interceptors.ErrorHandlingUnaryServerInterceptor()),
		grpc.ChainStreamInterceptor(interceptors.ErrorHandlingStreamServerInterceptor()))
	m := &mapSrv{r: r}
	im := &imapSrv{r: r}
	mapv1.RegisterMapServer(r.srv, m)
	mapv1.RegisterMapsServer(r.srv, m)
	imapv1.RegisterIndexedMapServer(r.srv, im)
	imapv1.RegisterIndexedMapsServer(r.srv, im)
	go func() { _ = r.srv.Serve(r.lis) }()
	k.AddSource("atomix-events", r.evActions)
	return r
}

// Stop stops the gRPC server.
func (r *Runtime) Stop() { r.srv.Stop() }

// P returns (creating if needed) a primitive.
func (r *Runtime) P(name string) *Prim {
	p, ok := r.Prims[name]
	if !ok {
		p = &Prim{Name: name, Entries: map[string]*Ent{}, ByIndex: map[uint64]*Ent{}}
		r.Prims[name] = p
	}
	return p
}

func (r *Runtime) ck(key string) string {
	if strings.HasPrefix(key, "uuid:") {
		return r.k.Name("tx", key)
	}
	if len(key) == 36 && strings.Count(key, "-") == 4 {
		return r.k.Name("id", key)
	}
	return key
}

// AtomixClient implements primitive.Client for one incarnation.
type AtomixClient struct {
	r     *Runtime
	mu    sync.Mutex
	conns []*grpc.ClientConn
}

// NewClient returns a client handle (one per incarnation).
func (r *Runtime) NewClient() *AtomixClient { return &AtomixClient{r: r} }

// Connect dials the in-memory runtime.
func (c *AtomixClient) Connect(ctx context.Context) (*grpc.ClientConn, error) {
	cc, err := grpc.DialContext(ctx, "passthrough:///atomix",
		grpc.WithContextDialer(func(ctx context.Context, s string) (net.Conn, error) { return c.r.lis.DialContext(ctx) }),
		grpc.WithTransportCredentials(insecure.NewCredentials()),
		grpc.WithChainUnaryInterceptor(interceptors.ErrorHandlingUnaryClientInterceptor()),
		grpc.WithChainStreamInterceptor(interceptors.ErrorHandlingStreamClientInterceptor()))
	if err == nil {
		c.mu.Lock()
		c.conns = append(c.conns, cc)
		c.mu.Unlock()
	}
	return cc, err
}

// Close closes every connection of the incarnation (crash / teardown).
func (c *AtomixClient) Close() {
	c.mu.Lock()
	defer c.mu.Unlock()
	for _, cc := range c.conns {
		_ = cc.Close()
	}
	c.conns = nil
}

// read parks a read operation.
func (r *Runtime) read(ctx context.Context, prim, op, key string, fn func(p *Prim) error) error {
	var err error
	ok := r.k.Park(fmt.Sprintf("op/%s/%s/%s", prim, op, key), func() { err = fn(r.P(prim)) }, ctx)
	if !ok {
		return aerr.NewCanceled("withdrawn")
	}
	if r.LateAck != nil && r.LateAck(prim, op, key) {
		// the answer of a read can be late too: what it reports may be stale by the time the caller sees it
		r.k.Stat("late-ack")
		if !r.k.Park(fmt.Sprintf("ack/%s/%s/%s", prim, op, key), func() {}, ctx) {
			return aerr.NewCanceled("response withdrawn")
		}
	}
	return err
}

// write parks a write operation. fn validates and applies; it must return (keys written, error) and make no change when
// it returns an error.
func (r *Runtime) write(ctx context.Context, prim, op, key string, fn func(p *Prim, dry bool) ([]string, error)) error {
	var err error
	ok := r.k.Park(fmt.Sprintf("op/%s/%s/%s", prim, op, key), func() {
		p := r.P(prim)
		// validate first without applying
		if _, e := fn(p, true); e != nil {
			err = e
			return
		}
		n := r.Writes + 1
		switch r.OpFaults[n] {
		case "unavail":
			r.Writes++
			delete(r.OpFaults, n)
			r.k.Stat("fault/op-unavailable")
			err = aerr.NewUnavailable("injected: unavailable")
			return
		case "acklost":
			delete(r.OpFaults, n)
			r.k.Stat("fault/op-ack-lost")
			err = aerr.NewUnavailable("injected: ack lost")
		}
		r.Writes++
		r.Ver++
		if r.KindCount == nil {
			r.KindCount = map[string]int{}
		}
		r.KindCount[prim+"/"+op]++
		keys, _ := fn(p, false)
		en := 0
		if r.Eff != nil {
			en = r.Eff.Add(fmt.Sprintf("atomix %s %s %v", prim, op, keys))
		}
		if r.OnWrite != nil {
			r.OnWrite(WriteRec{Step: r.k.StepN, N: en, Prim: prim, Op: op, Keys: keys, Task: r.k.Active})
		}
	}, ctx)
	if !ok {
		return aerr.NewCanceled("withdrawn")
	}
	if r.LateAck != nil && r.LateAck(prim, op, key) {
		r.k.Stat("late-ack")
		if !r.k.Park(fmt.Sprintf("ack/%s/%s/%s", prim, op, key), func() {}, ctx) {
			// the caller went away (deadline, crash) while the response was on its way: the write stands
			return aerr.NewCanceled("response withdrawn")
		}
	}
	return err
}

func (r *Runtime) notify(p *Prim, kind int, key string, ev any) {
	for _, s := range p.subs {
		if s.dead || s.kind != kind {
			continue
		}
		if s.key == "" || s.key == key {
			s.fifo = append(s.fifo, ev)
		}
	}
}

func (r *Runtime) evActions() []Action {
	r.mu.Lock()
	defer r.mu.Unlock()
	var acts []Action
	names := make([]string, 0, len(r.Prims))
	for n := range r.Prims {
		names = append(names, n)
	}
	sort.Strings(names)
	for _, n := range names {
		for _, s := range r.Prims[n].subs {
			s := s
			if len(s.fifo) > 0 && !s.dead {
				acts = append(acts, Action{Key: "ev/" + s.name, Fire: func() {
					r.mu.Lock()
					if s.dead || len(s.fifo) == 0 {
						r.mu.Unlock()
						return
					}
					e := s.fifo[0]
					s.fifo = s.fifo[1:]
					r.mu.Unlock()
					select {
					case s.ch <- e:
					default:
						r.k.Stat("overflow/" + s.name)
					}
				}})
			}
		}
	}
	return acts
}

// PendingEvents reports the number of undelivered events on live subscriptions.
func (r *Runtime) PendingEvents() int {
	r.mu.Lock()
	defer r.mu.Unlock()
	n := 0
	for _, p := range r.Prims {
		for _, s := range p.subs {
			if !s.dead {
				n += len(s.fifo)
			}
		}
	}
	return n
}

func (r *Runtime) subscribe(ctx context.Context, prim, key string, kind int, init func(p *Prim, s *asub)) *asub {
	s := &asub{key: key, kind: kind, ch: make(chan any, 1<<15)}
	opn := "events"
	if kind == 2 {
		opn = "watch"
	}
	register := func() {
		p := r.P(prim)
		p.nsubs++
		s.name = fmt.Sprintf("%s/%d", prim, p.nsubs)
		if init != nil {
			init(p, s)
		}
		r.mu.Lock()
		p.subs = append(p.subs, s)
		r.mu.Unlock()
	}
	if r.NoParkSubscribe != nil && r.NoParkSubscribe(prim) {
		// The caller is known to hold a mutex across this call (v3 transaction store, newTransactions): parking it
		// would leave other goroutines blocked on that mutex, which a synctest bubble cannot wait out. Served at once.
		r.immediate.Lock()
		register()
		r.immediate.Unlock()
		return s
	}
	ok := r.k.Park(fmt.Sprintf("op/%s/%s/%s", prim, opn, r.ck(key)), register, ctx)
	if !ok {
		return nil
	}
	return s
}

func (r *Runtime) kill(s *asub) {
	r.mu.Lock()
	s.dead = true
	s.fifo = nil
	r.mu.Unlock()
}

// ---------------- Map ----------------

type mapSrv struct {
	mapv1.UnimplementedMapServer
	r *Runtime
}

func (m *mapSrv) Create(ctx context.Context, q *mapv1.CreateRequest) (*mapv1.CreateResponse, error) {
	return &mapv1.CreateResponse{}, nil
}
func (m *mapSrv) Close(ctx context.Context, q *mapv1.CloseRequest) (*mapv1.CloseResponse, error) {
	return &mapv1.CloseResponse{}, nil
}

func mInserted(key string, e *Ent) *mapv1.Event {
	return &mapv1.Event{Key: key, Event: &mapv1.Event_Inserted_{Inserted: &mapv1.Event_Inserted{Value: mapv1.VersionedValue{Value: e.Val, Version: e.Ver}}}}
}
func mUpdated(key string, e, prev *Ent) *mapv1.Event {
	return &mapv1.Event{Key: key, Event: &mapv1.Event_Updated_{Updated: &mapv1.Event_Updated{
		Value: mapv1.VersionedValue{Value: e.Val, Version: e.Ver}, PrevValue: mapv1.VersionedValue{Value: prev.Val, Version: prev.Ver}}}}
}
func mRemoved(key string, prev *Ent) *mapv1.Event {
	return &mapv1.Event{Key: key, Event: &mapv1.Event_Removed_{Removed: &mapv1.Event_Removed{Value: mapv1.VersionedValue{Value: prev.Val, Version: prev.Ver}}}}
}

func (r *Runtime) mset(p *Prim, key string, val []byte) {
	prev, had := p.Entries[key]
	e := &Ent{Key: key, Val: val, Ver: r.Ver}
	p.Entries[key] = e
	if had {
		r.notify(p, 0, key, mUpdated(key, e, prev))
	} else {
		r.notify(p, 0, key, mInserted(key, e))
	}
	r.notify(p, 2, key, &mapv1.Entry{Key: key, Value: &mapv1.VersionedValue{Value: e.Val, Version: e.Ver}})
}

func (r *Runtime) mdel(p *Prim, key string) {
	prev := p.Entries[key]
	delete(p.Entries, key)
	r.notify(p, 0, key, mRemoved(key, prev))
}

func (m *mapSrv) Insert(ctx context.Context, q *mapv1.InsertRequest) (resp *mapv1.InsertResponse, err error) {
	r := m.r
	err = r.write(ctx, q.ID.Name, "insert", r.ck(q.Key), func(p *Prim, dry bool) ([]string, error) {
		if _, ok := p.Entries[q.Key]; ok {
			return nil, aerr.NewAlreadyExists("key exists")
		}
		if !dry {
			r.mset(p, q.Key, q.Value)
			resp = &mapv1.InsertResponse{Version: r.Ver}
		}
		return []string{q.Key}, nil
	})
	if err != nil {
		resp = nil
	}
	return
}

func (m *mapSrv) Put(ctx context.Context, q *mapv1.PutRequest) (resp *mapv1.PutResponse, err error) {
	r := m.r
	err = r.write(ctx, q.ID.Name, "put", r.ck(q.Key), func(p *Prim, dry bool) ([]string, error) {
		e, ok := p.Entries[q.Key]
		if q.PrevVersion != 0 && (!ok || e.Ver != q.PrevVersion) {
			return nil, aerr.NewConflict("version mismatch")
		}
		if !dry {
			resp = &mapv1.PutResponse{}
			if ok {
				resp.PrevValue = &mapv1.VersionedValue{Value: e.Val, Version: e.Ver}
			}
			r.mset(p, q.Key, q.Value)
			resp.Version = r.Ver
		}
		return []string{q.Key}, nil
	})
	if err != nil {
		resp = nil
	}
	return
}

func (m *mapSrv) Update(ctx context.Context, q *mapv1.UpdateRequest) (resp *mapv1.UpdateResponse, err error) {
	r := m.r
	err = r.write(ctx, q.ID.Name, "update", r.ck(q.Key), func(p *Prim, dry bool) ([]string, error) {
		e, ok := p.Entries[q.Key]
		if !ok {
			return nil, aerr.NewNotFound("key not found")
		}
		if q.PrevVersion != 0 && e.Ver != q.PrevVersion {
			return nil, aerr.NewConflict("version mismatch")
		}
		if !dry {
			resp = &mapv1.UpdateResponse{PrevValue: mapv1.VersionedValue{Value: e.Val, Version: e.Ver}}
			r.mset(p, q.Key, q.Value)
			resp.Version = r.Ver
		}
		return []string{q.Key}, nil
	})
	if err != nil {
		resp = nil
	}
	return
}

func (m *mapSrv) Remove(ctx context.Context, q *mapv1.RemoveRequest) (resp *mapv1.RemoveResponse, err error) {
	r := m.r
	err = r.write(ctx, q.ID.Name, "remove", r.ck(q.Key), func(p *Prim, dry bool) ([]string, error) {
		e, ok := p.Entries[q.Key]
		if !ok {
			return nil, aerr.NewNotFound("key not found")
		}
		if q.PrevVersion != 0 && e.Ver != q.PrevVersion {
			return nil, aerr.NewConflict("version mismatch")
		}
		if !dry {
			resp = &mapv1.RemoveResponse{Value: mapv1.VersionedValue{Value: e.Val, Version: e.Ver}}
			r.mdel(p, q.Key)
		}
		return []string{q.Key}, nil
	})
	if err != nil {
		resp = nil
	}
	return
}

func (m *mapSrv) Get(ctx context.Context, q *mapv1.GetRequest) (resp *mapv1.GetResponse, err error) {
	r := m.r
	err = r.read(ctx, q.ID.Name, "get", r.ck(q.Key), func(p *Prim) error {
		e, ok := p.Entries[q.Key]
		if !ok {
			return aerr.NewNotFound("key not found")
		}
		resp = &mapv1.GetResponse{Value: mapv1.VersionedValue{Value: e.Val, Version: e.Ver}}
		return nil
	})
	return
}

func (m *mapSrv) Size(ctx context.Context, q *mapv1.SizeRequest) (resp *mapv1.SizeResponse, err error) {
	r := m.r
	err = r.read(ctx, q.ID.Name, "size", "", func(p *Prim) error {
		resp = &mapv1.SizeResponse{Size_: uint32(len(p.Entries))}
		return nil
	})
	return
}

func (m *mapSrv) Commit(ctx context.Context, q *mapv1.CommitRequest) (resp *mapv1.CommitResponse, err error) {
	r := m.r
	if len(q.Operations) == 0 {
		// An empty transaction has no durable effect; still a round trip.
		err = r.read(ctx, q.ID.Name, "commit", "0", func(p *Prim) error { resp = &mapv1.CommitResponse{}; return nil })
		return
	}
	err = r.write(ctx, q.ID.Name, "commit", fmt.Sprint(len(q.Operations)), func(p *Prim, dry bool) ([]string, error) {
		var keys []string
		if dry {
			for _, op := range q.Operations {
				switch o := op.Operation.(type) {
				case *mapv1.CommitRequest_Operation_Insert:
					if _, ok := p.Entries[o.Insert.Key]; ok {
						return nil, aerr.NewAlreadyExists("exists")
					}
				case *mapv1.CommitRequest_Operation_Put:
					e, ok := p.Entries[o.Put.Key]
					if o.Put.PrevVersion != 0 && (!ok || e.Ver != o.Put.PrevVersion) {
						return nil, aerr.NewConflict("conflict")
					}
				case *mapv1.CommitRequest_Operation_Update:
					e, ok := p.Entries[o.Update.Key]
					if !ok {
						return nil, aerr.NewNotFound("not found")
					}
					if o.Update.PrevVersion != 0 && e.Ver != o.Update.PrevVersion {
						return nil, aerr.NewConflict("conflict")
					}
				case *mapv1.CommitRequest_Operation_Remove:
					e, ok := p.Entries[o.Remove.Key]
					if !ok {
						return nil, aerr.NewNotFound("not found")
					}
					if o.Remove.PrevVersion != 0 && e.Ver != o.Remove.PrevVersion {
						return nil, aerr.NewConflict("conflict")
					}
				}
			}
			return nil, nil
		}
		resp = &mapv1.CommitResponse{}
		for _, op := range q.Operations {
			switch o := op.Operation.(type) {
			case *mapv1.CommitRequest_Operation_Insert:
				r.mset(p, o.Insert.Key, o.Insert.Value)
				keys = append(keys, "+"+o.Insert.Key)
				resp.Results = append(resp.Results, mapv1.CommitResponse_Result{Result: &mapv1.CommitResponse_Result_Insert{Insert: &mapv1.CommitResponse_Insert{Version: r.Ver}}})
			case *mapv1.CommitRequest_Operation_Put:
				var pv *mapv1.VersionedValue
				if prev, ok := p.Entries[o.Put.Key]; ok {
					pv = &mapv1.VersionedValue{Value: prev.Val, Version: prev.Ver}
				}
				r.mset(p, o.Put.Key, o.Put.Value)
				keys = append(keys, "="+o.Put.Key)
				resp.Results = append(resp.Results, mapv1.CommitResponse_Result{Result: &mapv1.CommitResponse_Result_Put{Put: &mapv1.CommitResponse_Put{Version: r.Ver, PrevValue: pv}}})
			case *mapv1.CommitRequest_Operation_Update:
				prev := p.Entries[o.Update.Key]
				r.mset(p, o.Update.Key, o.Update.Value)
				keys = append(keys, "="+o.Update.Key)
				resp.Results = append(resp.Results, mapv1.CommitResponse_Result{Result: &mapv1.CommitResponse_Result_Update{Update: &mapv1.CommitResponse_Update{Version: r.Ver, PrevValue: mapv1.VersionedValue{Value: prev.Val, Version: prev.Ver}}}})
			case *mapv1.CommitRequest_Operation_Remove:
				prev := p.Entries[o.Remove.Key]
				r.mdel(p, o.Remove.Key)
				keys = append(keys, "-"+o.Remove.Key)
				resp.Results = append(resp.Results, mapv1.CommitResponse_Result{Result: &mapv1.CommitResponse_Result_Remove{Remove: &mapv1.CommitResponse_Remove{Value: mapv1.VersionedValue{Value: prev.Val, Version: prev.Ver}}}})
			}
		}
		return keys, nil
	})
	if err != nil {
		resp = nil
	}
	return
}

func (m *mapSrv) Events(q *mapv1.EventsRequest, srv mapv1.Map_EventsServer) error {
	r := m.r
	s := r.subscribe(srv.Context(), q.ID.Name, q.Key, 0, nil)
	if s == nil {
		return aerr.NewCanceled("withdrawn")
	}
	defer r.kill(s)
	if err := srv.Send(&mapv1.EventsResponse{}); err != nil {
		return err
	}
	for {
		select {
		case e := <-s.ch:
			if err := srv.Send(&mapv1.EventsResponse{Event: *(e.(*mapv1.Event))}); err != nil {
				return err
			}
		case <-srv.Context().Done():
			return nil
		}
	}
}

func (m *mapSrv) Entries(q *mapv1.EntriesRequest, srv mapv1.Map_EntriesServer) error {
	r := m.r
	var out []*mapv1.EntriesResponse
	snap := func(p *Prim) {
		keys := make([]string, 0, len(p.Entries))
		for k := range p.Entries {
			keys = append(keys, k)
		}
		sort.Strings(keys)
		for _, k := range keys {
			e := p.Entries[k]
			out = append(out, &mapv1.EntriesResponse{Entry: mapv1.Entry{Key: k, Value: &mapv1.VersionedValue{Value: e.Val, Version: e.Ver}}})
		}
	}
	var s *asub
	if q.Watch {
		s = r.subscribe(srv.Context(), q.ID.Name, "", 2, func(p *Prim, _ *asub) { snap(p) })
		if s == nil {
			return aerr.NewCanceled("withdrawn")
		}
		defer r.kill(s)
	} else {
		if err := r.read(srv.Context(), q.ID.Name, "entries", "", func(p *Prim) error { snap(p); return nil }); err != nil {
			return err
		}
	}
	for _, e := range out {
		if err := srv.Send(e); err != nil {
			return err
		}
	}
	if !q.Watch {
		return nil
	}
	for {
		select {
		case e := <-s.ch:
			if err := srv.Send(&mapv1.EntriesResponse{Entry: *(e.(*mapv1.Entry))}); err != nil {
				return err
			}
		case <-srv.Context().Done():
			return nil
		}
	}
}

// ---------------- IndexedMap ----------------

type imapSrv struct {
	imapv1.UnimplementedIndexedMapServer
	r *Runtime
}

func (m *imapSrv) Create(ctx context.Context, q *imapv1.CreateRequest) (*imapv1.CreateResponse, error) {
	return &imapv1.CreateResponse{}, nil
}
func (m *imapSrv) Close(ctx context.Context, q *imapv1.CloseRequest) (*imapv1.CloseResponse, error) {
	return &imapv1.CloseResponse{}, nil
}

func ientry(e *Ent) *imapv1.Entry {
	return &imapv1.Entry{Key: e.Key, Index: e.Index, Value: &imapv1.VersionedValue{Value: e.Val, Version: e.Ver}}
}

func (m *imapSrv) Append(ctx context.Context, q *imapv1.AppendRequest) (resp *imapv1.AppendResponse, err error) {
	r := m.r
	err = r.write(ctx, q.ID.Name, "append", r.ck(q.Key), func(p *Prim, dry bool) ([]string, error) {
		if _, ok := p.Entries[q.Key]; ok {
			return nil, aerr.NewAlreadyExists("key exists")
		}
		if !dry {
			p.Last++
			e := &Ent{Key: q.Key, Index: p.Last, Val: q.Value, Ver: r.Ver}
			p.Entries[q.Key] = e
			p.ByIndex[e.Index] = e
			resp = &imapv1.AppendResponse{Entry: ientry(e)}
			r.notify(p, 1, e.Key, &imapv1.Event{Key: e.Key, Index: e.Index, Event: &imapv1.Event_Inserted_{Inserted: &imapv1.Event_Inserted{Value: imapv1.VersionedValue{Value: e.Val, Version: e.Ver}}}})
		}
		return []string{q.Key}, nil
	})
	if err != nil {
		resp = nil
	}
	return
}

func (m *imapSrv) Update(ctx context.Context, q *imapv1.UpdateRequest) (resp *imapv1.UpdateResponse, err error) {
	r := m.r
	err = r.write(ctx, q.ID.Name, "update", r.ck(q.Key), func(p *Prim, dry bool) ([]string, error) {
		var e *Ent
		var ok bool
		if q.Key != "" {
			e, ok = p.Entries[q.Key]
		} else {
			e, ok = p.ByIndex[q.Index]
		}
		if !ok {
			return nil, aerr.NewNotFound("key not found")
		}
		if q.PrevVersion != 0 && e.Ver != q.PrevVersion {
			return nil, aerr.NewConflict("version mismatch")
		}
		if !dry {
			ne := &Ent{Key: e.Key, Index: e.Index, Val: q.Value, Ver: r.Ver}
			p.Entries[e.Key] = ne
			p.ByIndex[ne.Index] = ne
			resp = &imapv1.UpdateResponse{Entry: ientry(ne)}
			r.notify(p, 1, ne.Key, &imapv1.Event{Key: ne.Key, Index: ne.Index, Event: &imapv1.Event_Updated_{Updated: &imapv1.Event_Updated{
				// like the real state machine, an indexed map's Updated event carries no previous value
				Value: imapv1.VersionedValue{Value: ne.Val, Version: ne.Ver}}}})
		}
		return []string{e.Key}, nil
	})
	if err != nil {
		resp = nil
	}
	return
}

func (m *imapSrv) Get(ctx context.Context, q *imapv1.GetRequest) (resp *imapv1.GetResponse, err error) {
	r := m.r
	key := r.ck(q.Key)
	if q.Key == "" {
		key = fmt.Sprintf("#%d", q.Index)
	}
	err = r.read(ctx, q.ID.Name, "get", key, func(p *Prim) error {
		var e *Ent
		var ok bool
		if q.Key == "" {
			e, ok = p.ByIndex[q.Index]
		} else {
			e, ok = p.Entries[q.Key]
		}
		if !ok {
			return aerr.NewNotFound("not found")
		}
		resp = &imapv1.GetResponse{Entry: ientry(e)}
		return nil
	})
	return
}

func (m *imapSrv) Size(ctx context.Context, q *imapv1.SizeRequest) (resp *imapv1.SizeResponse, err error) {
	r := m.r
	err = r.read(ctx, q.ID.Name, "size", "", func(p *Prim) error {
		resp = &imapv1.SizeResponse{Size_: uint32(len(p.Entries))}
		return nil
	})
	return
}

func (m *imapSrv) Events(q *imapv1.EventsRequest, srv imapv1.IndexedMap_EventsServer) error {
	r := m.r
	s := r.subscribe(srv.Context(), q.ID.Name, q.Key, 1, nil)
	if s == nil {
		return aerr.NewCanceled("withdrawn")
	}
	defer r.kill(s)
	if err := srv.Send(&imapv1.EventsResponse{}); err != nil {
		return err
	}
	for {
		select {
		case e := <-s.ch:
			if err := srv.Send(&imapv1.EventsResponse{Event: *(e.(*imapv1.Event))}); err != nil {
				return err
			}
		case <-srv.Context().Done():
			return nil
		}
	}
}

func (m *imapSrv) Entries(q *imapv1.EntriesRequest, srv imapv1.IndexedMap_EntriesServer) error {
	r := m.r
	var out []*imapv1.EntriesResponse
	if err := r.read(srv.Context(), q.ID.Name, "entries", "", func(p *Prim) error {
		for i := uint64(1); i <= p.Last; i++ {
			if e, ok := p.ByIndex[i]; ok {
				out = append(out, &imapv1.EntriesResponse{Entry: *ientry(e)})
			}
		}
		return nil
	}); err != nil {
		return err
	}
	for _, e := range out {
		if err := srv.Send(e); err != nil {
			return err
		}
	}
	if q.Watch {
		<-srv.Context().Done()
	}
	return nil
}
