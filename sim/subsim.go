package sim

// C19 — Subscribe stream simulation: the real Server.Subscribe on a scripted northbound stream; per-target southbound
// clients are the repository's own, over bufconn to fake devices that record what they actually receive and emit updates
// when the scheduler releases them.

import (
	"context"
	"encoding/json"
	"fmt"
	"io"
	"math/rand"
	"runtime/debug"
	"sort"
	"strings"
	"sync"
	"testing"
	"testing/synctest"
	"time"

	"github.com/golang/protobuf/proto"
	"github.com/google/uuid"
	topoapi "github.com/onosproject/onos-api/go/onos/topo"
	nb "github.com/onosproject/onos-config/pkg/northbound/gnmi/v2"
	sb "github.com/onosproject/onos-config/pkg/southbound/gnmi"
	"github.com/onosproject/onos-config/pkg/verifrt"
	"github.com/onosproject/onos-lib-go/pkg/errors"
	"github.com/openconfig/gnmi/proto/gnmi"
	"google.golang.org/grpc/metadata"
)

// SubEntry is one subscription entry of the scenario.
type SubEntry struct {
	Target string `json:"target"` // "" = no target in the path
	Path   Path   `json:"path"`
	Mode   int    `json:"mode"`
	Sample uint64 `json:"sample,omitempty"`
}

// SubMsg is one northbound message.
type SubMsg struct {
	Kind         string     `json:"kind"` // subscribe | poll | close
	PrefixNil    bool       `json:"prefixNil,omitempty"`
	PrefixTarget string     `json:"prefixTarget,omitempty"`
	PrefixElems  Path       `json:"prefixElems,omitempty"`
	ListMode     int        `json:"listMode,omitempty"`
	UpdatesOnly  bool       `json:"updatesOnly,omitempty"`
	Qos          uint32     `json:"qos,omitempty"`
	Entries      []SubEntry `json:"entries,omitempty"`
}

// SubPlan is the subsim part of a plan.
type SubPlan struct {
	Targets []string       `json:"targets"`
	Msgs    []SubMsg       `json:"msgs"`
	Updates map[string]int `json:"updates"` // updates each target emits once subscribed
	// LookupFail: the connection manager cannot name the target's client once - at the given lookup ordinal for that
	// target (1 = the lookup of the subscription itself, never failed; n+1 = the lookup for the n-th poll)
	LookupFail map[string]int `json:"lookupFail,omitempty"`
	// Second: once the first stream has ended (its context cancelled, as gRPC does when the handler returns), a second
	// northbound stream carries this subscription; the per-target clients are the same objects. Updates2: what each
	// target emits on the second stream.
	Second   *SubMsg        `json:"second,omitempty"`
	Updates2 map[string]int `json:"updates2,omitempty"`
}

// flakyConns fails chosen GetByTarget lookups (a target that is briefly unknown to the manager).
type flakyConns struct {
	*Conns
	k     *Kernel
	fail  map[string]int
	count map[string]int
	mu    sync.Mutex
}

func (f *flakyConns) GetByTarget(ctx context.Context, t topoapi.ID) (sb.Client, error) {
	f.mu.Lock()
	f.count[string(t)]++
	n := f.count[string(t)]
	bad := f.fail[string(t)] == n && n > 1
	f.mu.Unlock()
	if bad {
		f.k.Stat("fault/conn-lookup-failed")
		return nil, errors.NewUnavailable("target %s is not connected", t)
	}
	return f.Conns.GetByTarget(ctx, t)
}

type nbStream struct {
	k      *Kernel
	ctx    context.Context
	msgs   []*gnmi.SubscribeRequest
	next   int
	mu     sync.Mutex
	sent   []*gnmi.SubscribeResponse
	closed bool
}

func (s *nbStream) Recv() (*gnmi.SubscribeRequest, error) {
	var req *gnmi.SubscribeRequest
	var err error
	i := s.next
	ok := s.k.Park(fmt.Sprintf("nb/recv/%d", i), func() {
		if s.next >= len(s.msgs) || s.msgs[s.next] == nil {
			err = io.EOF
			s.closed = true
			return
		}
		req = s.msgs[s.next]
		s.next++
	}, s.ctx)
	if !ok {
		return nil, s.ctx.Err()
	}
	return req, err
}

func (s *nbStream) Send(r *gnmi.SubscribeResponse) error {
	s.mu.Lock()
	s.sent = append(s.sent, r)
	s.mu.Unlock()
	return nil
}
func (s *nbStream) SetHeader(metadata.MD) error  { return nil }
func (s *nbStream) SendHeader(metadata.MD) error { return nil }
func (s *nbStream) SetTrailer(metadata.MD)       {}
func (s *nbStream) Context() context.Context     { return s.ctx }
func (s *nbStream) SendMsg(m any) error          { return nil }
func (s *nbStream) RecvMsg(m any) error          { return nil }

func buildSubReq(m SubMsg) *gnmi.SubscribeRequest {
	switch m.Kind {
	case "poll":
		return &gnmi.SubscribeRequest{Request: &gnmi.SubscribeRequest_Poll{Poll: &gnmi.Poll{}}}
	case "subscribe":
		l := &gnmi.SubscriptionList{Mode: gnmi.SubscriptionList_Mode(m.ListMode), UpdatesOnly: m.UpdatesOnly, Encoding: gnmi.Encoding_PROTO}
		if m.Qos != 0 {
			l.Qos = &gnmi.QOSMarking{Marking: m.Qos}
		}
		if !m.PrefixNil {
			l.Prefix = m.PrefixElems.ToGNMI(m.PrefixTarget)
		}
		for _, e := range m.Entries {
			l.Subscription = append(l.Subscription, &gnmi.Subscription{Path: e.Path.ToGNMI(e.Target), Mode: gnmi.SubscriptionMode(e.Mode), SampleInterval: e.Sample})
		}
		return &gnmi.SubscribeRequest{Request: &gnmi.SubscribeRequest_Subscribe{Subscribe: l}}
	}
	return nil
}

func genSubPlan(seed uint64, tier string) *Plan {
	g := NewGen(seed)
	p := &Plan{Property: "C19", Profile: "subscribe", Seed: seed}
	sp := &SubPlan{Targets: g.RandTargets(3), Updates: map[string]int{}}
	for _, t := range sp.Targets {
		sp.Updates[t] = g.pick(4)
	}
	mkSub := func() SubMsg {
		m := SubMsg{Kind: "subscribe", ListMode: g.pick(3), UpdatesOnly: g.chance(1, 3)}
		if g.chance(1, 3) {
			m.Qos = uint32(1 + g.pick(5))
		}
		n := 1 + g.pick(4)
		switch g.pick(6) {
		case 0, 1: // target in the prefix
			m.PrefixTarget = sp.Targets[g.pick(len(sp.Targets))]
			for i := 0; i < n; i++ {
				pp, _ := g.RandLeafPath(true)
				m.Entries = append(m.Entries, SubEntry{Path: pp[:1+g.pick(len(pp))], Mode: g.pick(3), Sample: uint64(g.pick(3)) * 1000})
			}
		case 2, 3: // targets in the paths, prefix message without target
			if g.chance(1, 3) {
				m.PrefixElems = Path{{Name: "cont1a"}}
			}
			for i := 0; i < n; i++ {
				pp, _ := g.RandLeafPath(true)
				m.Entries = append(m.Entries, SubEntry{Target: sp.Targets[g.pick(len(sp.Targets))], Path: pp[:1+g.pick(len(pp))], Mode: g.pick(3), Sample: uint64(g.pick(3)) * 1000})
			}
		case 4: // targets in the paths, no prefix message at all
			m.PrefixNil = true
			for i := 0; i < n; i++ {
				pp, _ := g.RandLeafPath(true)
				m.Entries = append(m.Entries, SubEntry{Target: sp.Targets[g.pick(len(sp.Targets))], Path: pp[:1+g.pick(len(pp))], Mode: g.pick(3)})
			}
		default: // no target anywhere / mixed
			for i := 0; i < n; i++ {
				pp, _ := g.RandLeafPath(true)
				t := ""
				if g.chance(1, 3) {
					t = sp.Targets[g.pick(len(sp.Targets))]
				}
				m.Entries = append(m.Entries, SubEntry{Target: t, Path: pp[:1+g.pick(len(pp))], Mode: g.pick(3)})
			}
		}
		return m
	}
	switch g.pick(8) {
	case 0:
		sp.Msgs = []SubMsg{{Kind: "poll"}, mkSub()}
	case 1:
		sp.Msgs = []SubMsg{mkSub(), mkSub(), {Kind: "poll"}}
	default:
		sp.Msgs = []SubMsg{mkSub()}
		for i := 0; i < g.pick(4); i++ {
			sp.Msgs = append(sp.Msgs, SubMsg{Kind: "poll"})
		}
	}
	npolls := 0
	for _, m := range sp.Msgs {
		if m.Kind == "poll" {
			npolls++
		}
	}
	if npolls >= 2 && g.chance(1, 2) {
		// the manager cannot name one target's client for one of the polls (not the last one)
		sp.LookupFail = map[string]int{sp.Targets[g.pick(len(sp.Targets))]: 2 + g.pick(npolls-1)}
	}
	sp.Msgs = append(sp.Msgs, SubMsg{Kind: "close"})
	if g.chance(1, 4) {
		// (wave 6) a second stream after the first one: the same per-target clients serve it
		m2 := mkSub()
		sp.Second = &m2
		sp.Updates2 = map[string]int{}
		for _, t := range sp.Targets {
			sp.Updates2[t] = 1 + g.pick(3)
		}
		p.Profile = "subscribe+second-stream"
	}
	p.Sub = sp
	p.Sched = g.RandSched()
	if p.Sched.Policy == "starve" {
		p.Sched.Starve = []string{"nb/recv", "dev/"}[g.pick(2)]
	}
	if g.chance(1, 2) {
		p.Knobs.MapSeed = g.R.Uint64() | 1
	}
	return p
}

func init() {
	Profiles["C19"] = &Profile{
		Property: "C19", Engine: "subsim",
		Rule: "non-trivial: the subscription named at least two targets, or updates from a target were interleaved with a poll or another target's updates, or the message sequence was one of the three that must be refused; distinct = distinct action-trace hash",
		Gen:  genSubPlan,
		Run:  runSub,
	}
}

func runSub(t *testing.T, plan *Plan) *Result {
	res := &Result{Plan: plan}
	start := time.Now()
	func() {
		defer func() {
			if p := recover(); p != nil {
				msg := fmt.Sprint(p)
				if !strings.Contains(msg, "deadlock: main bubble goroutine has exited") {
					res.Harness = "panic: " + msg
					res.PanicStack = string(debug.Stack())
				}
			}
		}()
		synctest.Test(t, func(t *testing.T) { subBubble(plan, res) })
	}()
	res.WallMs = float64(time.Since(start).Microseconds()) / 1000
	return res
}

func subBubble(plan *Plan, res *Result) {
	sp := plan.Sub
	uuid.SetRand(seededReader{rand.New(rand.NewSource(int64(plan.Seed)))})
	rand.Seed(int64(plan.Seed))
	verifrt.Seed.Store(plan.Knobs.MapSeed)
	k := NewKernel(&plan.Sched)
	report := func(oracle, shape, msg string) {
		sig := "C19/" + oracle + "/" + shape
		for _, v := range res.Viol {
			if v.Sig == sig {
				return
			}
		}
		res.Viol = append(res.Viol, &Violation{Property: "C19", Oracle: oracle, Sig: sig, Msg: msg, Step: k.StepN})
	}
	ctx, cancel := context.WithCancel(context.Background())
	defer cancel()
	conns := NewConns(k, ctx)
	devs := map[string]*Device{}
	for _, t := range sp.Targets {
		devs[t] = NewDevice(k, t, nil)
		conns.Up(devs[t])
	}
	defer func() {
		conns.Close()
		for _, d := range devs {
			d.Stop()
		}
	}()
	var cm sb.ConnManager = conns
	if len(sp.LookupFail) > 0 {
		cm = &flakyConns{Conns: conns, k: k, fail: sp.LookupFail, count: map[string]int{}}
	}
	server := nb.NewServerForVerif(nil, nil, nil, nil, nil, cm, 0)
	ctx1, cancel1 := context.WithCancel(ctx)
	defer cancel1()
	stream := &nbStream{k: k, ctx: ctx1}
	for _, m := range sp.Msgs {
		stream.msgs = append(stream.msgs, buildSubReq(m))
	}
	// expectations
	var first *SubMsg
	firstIdx := -1
	for i := range sp.Msgs {
		if sp.Msgs[i].Kind == "subscribe" {
			first = &sp.Msgs[i]
			firstIdx = i
			break
		}
	}
	illegal := ""
	expectTargets := map[string][]SubEntry{}
	if len(sp.Msgs) > 0 && sp.Msgs[0].Kind == "poll" {
		illegal = "poll-before-subscribe"
	} else if first != nil {
		if first.PrefixTarget != "" {
			expectTargets[first.PrefixTarget] = first.Entries
		} else {
			for _, e := range first.Entries {
				if e.Target != "" {
					expectTargets[e.Target] = append(expectTargets[e.Target], e)
				}
			}
			if len(expectTargets) == 0 {
				illegal = "no-target"
			}
		}
	}
	secondSub := false
	pollsAfter := 0
	if illegal == "" {
		for i := firstIdx + 1; i < len(sp.Msgs); i++ {
			if sp.Msgs[i].Kind == "subscribe" {
				secondSub = true
				break
			}
			if sp.Msgs[i].Kind == "poll" {
				pollsAfter++
			}
		}
	}
	// handler
	done := make(chan error, 1)
	var hpanic any
	k.Active = "handler"
	go func() {
		defer func() {
			if p := recover(); p != nil {
				hpanic = p
				done <- fmt.Errorf("PANIC: %v", p)
			}
		}()
		done <- server.Subscribe(stream)
	}()
	// device emissions: enabled once the device has a subscribe stream with its request
	emitted := map[string]int{}
	sentByDev := map[string][]*gnmi.SubscribeResponse{}
	quota := sp.Updates // swapped for Updates2 when the second stream starts
	emitSeq := 0        // ordinal offset of the second phase (emissions stay a function of plan seed, target, ordinal)
	k.AddSource("dev-emit", func() []Action {
		var acts []Action
		for _, t := range sp.Targets {
			t := t
			d := devs[t]
			subs := d.Subs()
			if len(subs) == 0 || emitted[t] >= quota[t] {
				continue
			}
			s0 := subs[len(subs)-1]
			d.mu.Lock()
			has := len(s0.Reqs) > 0
			d.mu.Unlock()
			if !has {
				continue
			}
			acts = append(acts, Action{Key: fmt.Sprintf("dev/%s/emit/%d", t, emitted[t]+emitSeq), Fire: func() {
				n := emitted[t] + emitSeq
				emitted[t]++
				// what the target emits is a stateless function of (plan seed, target, ordinal): value updates, several
				// updates, delete-only notifications (a node removed on the device), updates with deletes, notifications
				// without content (heartbeat) and sync responses - every one of them has to reach the subscriber
				upd := func(leaf string, i int) *gnmi.Update {
					return &gnmi.Update{Path: Path{{Name: "cont1a"}, {Name: leaf}}.ToGNMI(""), Val: &gnmi.TypedValue{Value: &gnmi.TypedValue_StringVal{StringVal: fmt.Sprintf("%s-u%d.%d", t, n, i)}}}
				}
				del := Path{{Name: "cont1a"}, {Name: "list2a", Keys: [][2]string{{"name", fmt.Sprintf("e%d", n)}}}}.ToGNMI("")
				hx := plan.Seed ^ uint64(n+1)*0x9e3779b97f4a7c15
				for _, c := range []byte(t) {
					hx = hx*1099511628211 ^ uint64(c)
				}
				nt := &gnmi.Notification{Timestamp: int64(1000 + n), Prefix: &gnmi.Path{Target: t}}
				r := &gnmi.SubscribeResponse{Response: &gnmi.SubscribeResponse_Update{Update: nt}}
				switch splitmix(&hx) % 8 {
				case 0, 1, 2:
					nt.Update = []*gnmi.Update{upd("leaf1a", 0)}
				case 3:
					nt.Update = []*gnmi.Update{upd("leaf1a", 0), upd("leaf1ab", 1)}
				case 4:
					nt.Delete = []*gnmi.Path{del}
				case 5:
					nt.Update = []*gnmi.Update{upd("leaf1ab", 0)}
					nt.Delete = []*gnmi.Path{del}
				case 6:
					// no content
				default:
					r = &gnmi.SubscribeResponse{Response: &gnmi.SubscribeResponse_SyncResponse{SyncResponse: true}}
				}
				sentByDev[t] = append(sentByDev[t], r)
				s0.out <- r
			}})
		}
		return acts
	})
	var herr error
	returned := false
	for n := 0; n < 5000; n++ {
		synctest.Wait()
		if !returned {
			select {
			case herr = <-done:
				returned = true
			default:
			}
		}
		if !k.Step() {
			break
		}
	}
	synctest.Wait()
	if !returned {
		select {
		case herr = <-done:
			returned = true
		default:
		}
	}
	// what the devices had received when the first stream was over: the oracles of the first stream look at this only
	subs1 := map[string][]*devSub{}
	for _, t := range sp.Targets {
		subs1[t] = devs[t].Subs()
	}
	// ---- second stream (same server, same connection manager, same per-target client objects)
	var stream2 *nbStream
	var herr2 error
	returned2 := false
	var hpanic2 any
	sentByDev1 := sentByDev
	subsBefore := map[string]int{}
	if sp.Second != nil && hpanic == nil {
		cancel1() // what gRPC does once the first handler has returned (or the subscriber has gone away)
		for n := 0; n < 2000; n++ {
			synctest.Wait()
			if !k.Step() {
				break
			}
		}
		synctest.Wait()
		for _, t := range sp.Targets {
			for _, ds := range devs[t].Subs() {
				devs[t].mu.Lock()
				for _, r := range ds.Reqs {
					if r.GetSubscribe() != nil {
						subsBefore[t]++
					}
				}
				devs[t].mu.Unlock()
			}
		}
		ctx2, cancel2 := context.WithCancel(ctx)
		defer cancel2()
		stream2 = &nbStream{k: k, ctx: ctx2, msgs: []*gnmi.SubscribeRequest{buildSubReq(*sp.Second), nil}}
		sentByDev = map[string][]*gnmi.SubscribeResponse{}
		emitSeq = 100
		emitted = map[string]int{}
		quota = sp.Updates2
		// emissions go to the stream each device opened for the second subscription only
		nsubs1 := map[string]int{}
		for _, t := range sp.Targets {
			nsubs1[t] = len(devs[t].Subs())
		}
		q2 := map[string]int{}
		quota = q2
		done2 := make(chan error, 1)
		k.Active = "handler2"
		go func() {
			defer func() {
				if p := recover(); p != nil {
					hpanic2 = p
					done2 <- fmt.Errorf("PANIC: %v", p)
				}
			}()
			done2 <- server.Subscribe(stream2)
		}()
		for n := 0; n < 5000; n++ {
			synctest.Wait()
			for _, t := range sp.Targets {
				if len(devs[t].Subs()) > nsubs1[t] {
					q2[t] = sp.Updates2[t]
				}
			}
			if !returned2 {
				select {
				case herr2 = <-done2:
					returned2 = true
				default:
				}
			}
			if !k.Step() {
				break
			}
		}
		synctest.Wait()
		if !returned2 {
			select {
			case herr2 = <-done2:
				returned2 = true
			default:
			}
		}
	}
	sentByDev2 := sentByDev
	sentByDev = sentByDev1
	// ---- oracles
	if hpanic2 != nil {
		report("handler", "panic", fmt.Sprintf("Subscribe panicked on a second stream (%s): %v", describeMsgs([]SubMsg{*sp.Second}), hpanic2))
	}
	if stream2 != nil && hpanic2 == nil {
		// the second stream: every target it names received one more subscription, and everything those targets emitted
		// on it was relayed to the second subscriber, unmodified, in per-target order
		exp2 := map[string]bool{}
		if sp.Second.PrefixTarget != "" {
			exp2[sp.Second.PrefixTarget] = true
		} else {
			for _, e := range sp.Second.Entries {
				if e.Target != "" {
					exp2[e.Target] = true
				}
			}
		}
		if len(exp2) == 0 {
			if !returned2 || herr2 == nil || herr2 == io.EOF {
				report("refusal", "no-target-second-stream", fmt.Sprintf("a second stream whose subscription names no target must be refused; returned=%v err=%v", returned2, herr2))
			}
		} else {
			for _, t := range sp.Targets {
				n := 0
				for _, ds := range devs[t].Subs() {
					devs[t].mu.Lock()
					for _, r := range ds.Reqs {
						if r.GetSubscribe() != nil {
							n++
						}
					}
					devs[t].mu.Unlock()
				}
				if exp2[t] && n-subsBefore[t] != 1 {
					report("second-stream", "subscription-count", fmt.Sprintf("target %s must receive exactly one subscription for the second stream, received %d", t, n-subsBefore[t]))
				} else if !exp2[t] && n != subsBefore[t] {
					report("second-stream", "unnamed-target-received", fmt.Sprintf("target %s is not named by the second stream's subscription but received %d more subscription(s)", t, n-subsBefore[t]))
				}
			}
			stream2.mu.Lock()
			sent2 := append([]*gnmi.SubscribeResponse{}, stream2.sent...)
			stream2.mu.Unlock()
			pos2 := map[string]int{}
			{
				// same search as for the first stream: responses that do not name their target can belong to any target
				tgs := append([]string{}, sp.Targets...)
				best := 0
				seen := map[string]bool{}
				var search func(i int, ps []int) bool
				search = func(i int, ps []int) bool {
					key := fmt.Sprint(i, ps)
					if seen[key] {
						return false
					}
					seen[key] = true
					if i >= best {
						best = i
						for j, t := range tgs {
							pos2[t] = ps[j]
						}
					}
					if i == len(sent2) {
						return true
					}
					r := sent2[i]
					named := r.GetUpdate().GetPrefix().GetTarget()
					for j, t := range tgs {
						if named != "" && named != t {
							continue
						}
						if e := sentByDev2[t]; ps[j] < len(e) && proto.Equal(e[ps[j]], r) {
							ps[j]++
							if search(i+1, ps) {
								return true
							}
							ps[j]--
						}
					}
					return false
				}
				if !search(0, make([]int, len(tgs))) {
					report("second-stream", "modified-or-reordered", fmt.Sprintf("the second subscriber received %v (response %d of %d), which is not the next response of any target on that stream", sent2[best], best+1, len(sent2)))
				}
			}
			for _, t := range sp.Targets {
				if exp2[t] && pos2[t] != len(sentByDev2[t]) {
					report("second-stream", "update-lost", fmt.Sprintf("target %s emitted %d responses on the second stream, the second subscriber received %d", t, len(sentByDev2[t]), pos2[t]))
				}
			}
			k.Probe("c19-second-stream-checked")
		}
	}
	if hpanic != nil {
		report("handler", "panic", fmt.Sprintf("Subscribe panicked on a message sequence (%s): %v", describeMsgs(sp.Msgs), hpanic))
	} else {
		switch {
		case illegal != "":
			if !returned || herr == nil || herr == io.EOF {
				report("refusal", illegal, fmt.Sprintf("the sequence %s must be refused with an error; handler returned=%v err=%v", describeMsgs(sp.Msgs), returned, herr))
			}
			for t, d := range devs {
				for _, s := range subs1[t] {
					d.mu.Lock()
					nr := len(s.Reqs)
					d.mu.Unlock()
					if nr > 0 {
						report("refusal", illegal+"-forwarded", fmt.Sprintf("a refused sequence (%s) still forwarded %d message(s) to target %s", illegal, nr, t))
					}
				}
			}
		default:
			if secondSub && (!returned || herr == nil || herr == io.EOF) {
				report("refusal", "second-subscription", fmt.Sprintf("a second subscription on the same stream must be refused; handler returned=%v err=%v", returned, herr))
			}
			// each named target received exactly its entries, unmodified, plus the list-level options; nobody else anything
			for _, t := range sp.Targets {
				d := devs[t]
				var reqs []*gnmi.SubscribeRequest
				for _, s := range subs1[t] {
					d.mu.Lock()
					reqs = append(reqs, s.Reqs...)
					d.mu.Unlock()
				}
				want, named := expectTargets[t]
				if !named {
					if len(reqs) > 0 {
						report("forwarding", "unnamed-target-received", fmt.Sprintf("target %s is not named by the subscription but received %d message(s): %v", t, len(reqs), reqs[0]))
					}
					continue
				}
				var subsGot []*gnmi.SubscribeRequest
				polls := 0
				for _, r := range reqs {
					if r.GetSubscribe() != nil {
						subsGot = append(subsGot, r)
					} else if r.GetPoll() != nil {
						polls++
					}
				}
				if len(subsGot) != 1 {
					report("forwarding", "subscription-count", fmt.Sprintf("target %s must receive exactly one subscription, received %d", t, len(subsGot)))
					continue
				}
				got := subsGot[0].GetSubscribe()
				if len(got.Subscription) != len(want) {
					report("forwarding", "entries-differ", fmt.Sprintf("target %s received %d entries, the request names %d for it: %v", t, len(got.Subscription), len(want), got))
				} else {
					for i, e := range want {
						exp := &gnmi.Subscription{Path: e.Path.ToGNMI(e.Target), Mode: gnmi.SubscriptionMode(e.Mode), SampleInterval: e.Sample}
						if !proto.Equal(exp, got.Subscription[i]) {
							report("forwarding", "entry-modified", fmt.Sprintf("target %s entry %d was modified: sent %v, received %v", t, i, exp, got.Subscription[i]))
						}
					}
				}
				if got.Mode != gnmi.SubscriptionList_Mode(first.ListMode) || got.UpdatesOnly != first.UpdatesOnly || got.Encoding != gnmi.Encoding_PROTO || got.GetQos().GetMarking() != first.Qos {
					report("forwarding", "list-options-lost", fmt.Sprintf("target %s: list-level options differ from the request: %v", t, got))
				}
				if got.GetPrefix().GetTarget() != t {
					report("forwarding", "prefix-target", fmt.Sprintf("target %s received a subscription whose prefix names %q", t, got.GetPrefix().GetTarget()))
				}
				wantPolls := pollsAfter
				if o := sp.LookupFail[t]; o >= 2 && o-1 <= pollsAfter {
					wantPolls-- // the one poll during which the manager could not name the target is excused
				}
				if !secondSub && polls != wantPolls {
					report("poll", "not-forwarded-to-every-target", fmt.Sprintf("target %s received %d poll(s); the subscriber sent %d (%d to be forwarded to it)", t, polls, pollsAfter, wantPolls))
				}
			}
			// every update a target emitted is relayed unmodified, in per-target order
			stream.mu.Lock()
			sent := append([]*gnmi.SubscribeResponse{}, stream.sent...)
			stream.mu.Unlock()
			pos := map[string]int{}
			// what the subscriber received must be an interleaving of the targets' emission sequences, each in its own
			// order and unmodified. Responses that do not name their target (sync responses) can belong to any target, so
			// the assignment is searched (sequences are short): the longest consistent prefix is reported on failure.
			tgs := append([]string{}, sp.Targets...)
			best := 0
			var bestPos map[string]int
			seen := map[string]bool{}
			var search func(i int, ps []int) bool
			search = func(i int, ps []int) bool {
				key := fmt.Sprint(i, ps)
				if seen[key] {
					return false
				}
				seen[key] = true
				if i >= best {
					best = i
					bestPos = map[string]int{}
					for j, t := range tgs {
						bestPos[t] = ps[j]
					}
				}
				if i == len(sent) {
					return true
				}
				r := sent[i]
				named := r.GetUpdate().GetPrefix().GetTarget()
				for j, t := range tgs {
					if named != "" && named != t {
						continue
					}
					if exp := sentByDev[t]; ps[j] < len(exp) && proto.Equal(exp[ps[j]], r) {
						ps[j]++
						if search(i+1, ps) {
							return true
						}
						ps[j]--
					}
				}
				return false
			}
			if !search(0, make([]int, len(tgs))) {
				report("relay", "modified-or-reordered", fmt.Sprintf("subscriber received %v (response %d of %d) which is not the next response of any target", sent[best], best+1, len(sent)))
			}
			for t, n := range bestPos {
				pos[t] = n
			}
			for _, t := range sp.Targets {
				if _, named := expectTargets[t]; named && !secondSub && pos[t] != len(sentByDev[t]) {
					report("relay", "update-lost", fmt.Sprintf("target %s emitted %d updates, the subscriber received %d", t, len(sentByDev[t]), pos[t]))
				}
			}
		}
	}
	multi := len(expectTargets) >= 2
	res.NonTrivial = multi || illegal != "" || secondSub || (pollsAfter > 0 && len(sentByDev) > 0) || stream2 != nil
	res.Steps = k.StepN
	res.Trace = k.Trace
	// the case is (message sequence, schedule): runs are short, so the scenario is part of the case identity
	pj, _ := json.Marshal(sp)
	res.TraceHash = hash16(fmt.Sprintf("%016x|%s", k.TraceHash(), pj))
	res.Stats = k.Stats
	res.Probes = k.Probes
	res.Used = plan.Sched.Used()
	ts := make([]string, 0)
	for t := range expectTargets {
		ts = append(ts, t)
	}
	sort.Strings(ts)
	res.Summary = fmt.Sprintf("msgs=%s targets=%v illegal=%q returned=%v err=%v relayed=%d", describeMsgs(sp.Msgs), ts, illegal, returned, herr, len(stream.sent))
}

func describeMsgs(ms []SubMsg) string {
	var out []string
	for _, m := range ms {
		d := m.Kind
		if m.Kind == "subscribe" {
			d += fmt.Sprintf("(prefixNil=%v prefixTarget=%q entries=%d)", m.PrefixNil, m.PrefixTarget, len(m.Entries))
		}
		out = append(out, d)
	}
	return strings.Join(out, ",")
}
