// Package sim is the deterministic simulator for onos-config: a seeded scheduler (this file), fakes of everything
// outside the repository (atomix.go, topo.go, device.go, plugin.go, conns.go, ctl.go), a reference model (model.go),
// the whole-system wiring and oracles (sys*.go), and the store / subscribe / v3 engines.
package sim

import (
	"context"
	"fmt"
	"hash/fnv"
	"sort"
	"strings"
	"sync"
	"time"
)

// Action is one schedulable thing. Exactly one is released per step.
type Action struct {
	Key  string // canonical key (no raw ids)
	Task string // task label that becomes active when the action fires
	Lazy bool   // only taken when nothing non-lazy is enabled, or by an explicit scheduler choice
	Fire func()
	age  int
}

type parked struct {
	key  string
	task string
	run  func()
	done chan bool
	step int
}

type source struct {
	name string
	f    func() []Action
	dead bool
}

// Sched is the schedule part of a plan: a policy plus a choice vector. When Vec is nil the vector is the stream of a
// splitmix64 generator seeded with Seed (lazily drawn, recorded in Used); when Vec is non-nil (replay, minimisation) it is
// used verbatim and, once exhausted, yields 0 = the most boring choice.
type Sched struct {
	Policy string   `json:"policy"` // fifo | rand | rtc | starve | window
	P      int      `json:"p"`      // rtc: pre-emption numerator /16 ; starve: unused
	Starve string   `json:"starve"` // key prefix(es, comma separated) to starve
	Seed   uint64   `json:"seed"`
	Vec    []uint32 `json:"vec,omitempty"`
	used   []uint32
	state  uint64
	pos    int
}

func splitmix(x *uint64) uint64 {
	*x += 0x9e3779b97f4a7c15
	z := *x
	z = (z ^ (z >> 30)) * 0xbf58476d1ce4e5b9
	z = (z ^ (z >> 27)) * 0x94d049bb133111eb
	return z ^ (z >> 31)
}

func (s *Sched) next() uint32 {
	var c uint32
	if s.Vec != nil {
		if s.pos < len(s.Vec) {
			c = s.Vec[s.pos]
		}
		s.pos++
	} else {
		if s.pos == 0 {
			s.state = s.Seed
		}
		s.pos++
		c = uint32(splitmix(&s.state) >> 32)
	}
	s.used = append(s.used, c)
	return c
}

// Used returns the choice values consumed so far.
func (s *Sched) Used() []uint32 { return s.used }

// Kernel is the seeded scheduler. The root goroutine of the synctest bubble drives it.
type Kernel struct {
	mu        sync.Mutex
	pend      []*parked
	sources   []*source
	names     map[string]string
	nameCount map[string]int
	firstSeen map[string]int
	timers    []*ktimer
	timerSeq  int

	StepN   int
	Active  string // task label of the action released in the current step
	Trace   []string
	Verbose bool
	Fair    bool // heal phase: always the oldest enabled action (a fair schedule)
	Sched   *Sched
	Now     func() time.Time
	Sleep   func(time.Duration)

	// Hooks
	OnStep func(a *Action) // called after choosing, before firing
	Stats  map[string]int
	Probes map[string]int
	lastEn []string
}

type ktimer struct {
	due  time.Time
	seq  int
	key  string
	fire func()
	dead bool
}

// NewKernel creates a kernel with the given schedule.
func NewKernel(s *Sched) *Kernel {
	if s == nil {
		s = &Sched{Policy: "fifo"}
	}
	return &Kernel{names: map[string]string{}, nameCount: map[string]int{}, firstSeen: map[string]int{}, Sched: s,
		Now: time.Now, Sleep: time.Sleep, Stats: map[string]int{}, Probes: map[string]int{}}
}

// Probe counts a rare condition reached.
func (k *Kernel) Probe(name string) {
	k.mu.Lock()
	k.Probes[name]++
	k.mu.Unlock()
}

// Stat counts an occurrence (fault fired etc.).
func (k *Kernel) Stat(name string) {
	k.mu.Lock()
	k.Stats[name]++
	k.mu.Unlock()
}

// Name canonicalises a raw identifier (uuid etc.) to kind+ordinal in order of first appearance.
func (k *Kernel) Name(kind, raw string) string {
	if raw == "" {
		return ""
	}
	k.mu.Lock()
	defer k.mu.Unlock()
	if n, ok := k.names[raw]; ok {
		return n
	}
	k.nameCount[kind]++
	n := fmt.Sprintf("%s%d", kind, k.nameCount[kind])
	k.names[raw] = n
	return n
}

// Canon replaces every known raw identifier occurring in s by its canonical name.
func (k *Kernel) Canon(s string) string {
	if !strings.Contains(s, "uuid:") {
		return s
	}
	k.mu.Lock()
	defer k.mu.Unlock()
	for raw, n := range k.names {
		if raw != "" && strings.Contains(s, raw) {
			s = strings.ReplaceAll(s, raw, n)
		}
	}
	return s
}

// Park blocks the calling goroutine until the scheduler releases this operation; run then executes on the scheduler
// goroutine (atomically w.r.t. everything else). It returns false, without run having executed, if one of the contexts
// ended first (the call is withdrawn: deadline, client gone, incarnation crashed).
func (k *Kernel) Park(key string, run func(), ctxs ...context.Context) bool {
	for _, c := range ctxs {
		if c != nil && c.Err() != nil {
			return false
		}
	}
	p := &parked{key: key, run: run, done: make(chan bool, 1)}
	k.mu.Lock()
	p.step = k.StepN
	p.task = k.Active
	k.pend = append(k.pend, p)
	k.mu.Unlock()
	var d0, d1 <-chan struct{}
	if len(ctxs) > 0 && ctxs[0] != nil {
		d0 = ctxs[0].Done()
	}
	if len(ctxs) > 1 && ctxs[1] != nil {
		d1 = ctxs[1].Done()
	}
	select {
	case ok := <-p.done:
		return ok
	case <-d0:
	case <-d1:
	}
	k.mu.Lock()
	removed := false
	for i, q := range k.pend {
		if q == p {
			k.pend = append(k.pend[:i], k.pend[i+1:]...)
			removed = true
			break
		}
	}
	k.mu.Unlock()
	if removed {
		return false
	}
	return <-p.done
}

// AddSource registers a producer of enabled actions; the returned func removes it.
func (k *Kernel) AddSource(name string, f func() []Action) func() {
	s := &source{name: name, f: f}
	k.mu.Lock()
	k.sources = append(k.sources, s)
	k.mu.Unlock()
	return func() { k.mu.Lock(); s.dead = true; k.mu.Unlock() }
}

// After registers a timer on the (fake) clock; it fires only through the scheduler's time action.
func (k *Kernel) After(d time.Duration, key string, fire func()) func() {
	k.mu.Lock()
	k.timerSeq++
	t := &ktimer{due: k.Now().Add(d), seq: k.timerSeq, key: key, fire: fire}
	k.timers = append(k.timers, t)
	k.mu.Unlock()
	return func() { k.mu.Lock(); t.dead = true; k.mu.Unlock() }
}

func (k *Kernel) nextTimer() *ktimer {
	var best *ktimer
	live := k.timers[:0]
	for _, t := range k.timers {
		if t.dead {
			continue
		}
		live = append(live, t)
		if best == nil || t.due.Before(best.due) || (t.due.Equal(best.due) && (t.key < best.key || (t.key == best.key && t.seq < best.seq))) {
			best = t
		}
	}
	k.timers = live
	return best
}

// Enabled returns the enabled actions in canonical order: oldest first (step of first enablement), then by key.
func (k *Kernel) Enabled() []Action {
	var acts []Action
	k.mu.Lock()
	for _, p := range k.pend {
		p := p
		acts = append(acts, Action{Key: p.key, Task: p.task, age: p.step, Fire: func() {
			k.mu.Lock()
			found := false
			for i, q := range k.pend {
				if q == p {
					k.pend = append(k.pend[:i], k.pend[i+1:]...)
					found = true
					break
				}
			}
			k.mu.Unlock()
			if !found {
				return
			}
			p.run()
			p.done <- true
		}})
	}
	srcs := append([]*source{}, k.sources...)
	if t := k.nextTimer(); t != nil {
		t := t
		acts = append(acts, Action{Key: "time/" + t.key, Task: "time", Lazy: true, age: -1, Fire: func() {
			if d := t.due.Sub(k.Now()); d > 0 {
				k.Sleep(d)
			}
			k.mu.Lock()
			t.dead = true
			k.mu.Unlock()
			t.fire()
		}})
	}
	k.mu.Unlock()
	for _, s := range srcs {
		if s.dead {
			continue
		}
		for _, a := range s.f() {
			a.age = -1
			acts = append(acts, a)
		}
	}
	// unique keys: duplicates get a #n suffix in canonical (sorted) order
	sort.SliceStable(acts, func(i, j int) bool {
		if acts[i].Key != acts[j].Key {
			return acts[i].Key < acts[j].Key
		}
		if acts[i].age != acts[j].age {
			return acts[i].age < acts[j].age
		}
		return acts[i].Task < acts[j].Task
	})
	for i := 0; i < len(acts); {
		j := i + 1
		for j < len(acts) && acts[j].Key == acts[i].Key {
			j++
		}
		for n := i + 1; n < j; n++ {
			acts[n].Key = fmt.Sprintf("%s#%d", acts[n].Key, n-i+1)
		}
		i = j
	}
	seen := map[string]bool{}
	for i := range acts {
		a := &acts[i]
		seen[a.Key] = true
		if a.age < 0 {
			fs, ok := k.firstSeen[a.Key]
			if !ok {
				fs = k.StepN
				k.firstSeen[a.Key] = fs
			}
			a.age = fs
		}
	}
	for key := range k.firstSeen {
		if !seen[key] {
			delete(k.firstSeen, key)
		}
	}
	sort.SliceStable(acts, func(i, j int) bool {
		if acts[i].age != acts[j].age {
			return acts[i].age < acts[j].age
		}
		return acts[i].Key < acts[j].Key
	})
	return acts
}

func hasAnyPrefix(s string, prefixes string) bool {
	if prefixes == "" {
		return false
	}
	for _, p := range strings.Split(prefixes, ",") {
		if p != "" && !strings.HasPrefix(p, "task:") && strings.HasPrefix(s, p) {
			return true
		}
	}
	return false
}

// starved reports whether an action is held back by the policy's Starve list: by key prefix, or ("task:<prefix>") by the
// task that issued it - every outstanding call of one controller's reconciles is slow, whatever it calls; the start of a
// new reconcile ("rec/...") of that controller is not.
func starved(a *Action, prefixes string) bool {
	if hasAnyPrefix(a.Key, prefixes) {
		return true
	}
	if !strings.Contains(prefixes, "task:") {
		return false
	}
	for _, p := range strings.Split(prefixes, ",") {
		if strings.HasPrefix(p, "task:") && a.Task != "" && strings.HasPrefix(a.Task, p[5:]) && !strings.HasPrefix(a.Key, "rec/") {
			return true
		}
	}
	return false
}

// choose applies the policy to the enabled set. Choice value 0 always selects the oldest non-lazy action.
func (k *Kernel) choose(acts []Action) int {
	c := k.Sched.next()
	var eager, lazy []int
	for i, a := range acts {
		if a.Lazy {
			lazy = append(lazy, i)
		} else {
			eager = append(eager, i)
		}
	}
	if k.Fair {
		// fair schedule: the oldest enabled action, timers included (acts is sorted by age)
		return 0
	}
	if len(eager) == 0 {
		return lazy[int(c)%len(lazy)]
	}
	pick := func(set []int, c uint32) int { return set[int(c)%len(set)] }
	switch k.Sched.Policy {
	case "rand":
		if c%64 == 63 && len(lazy) > 0 {
			return pick(lazy, c>>6)
		}
		return pick(eager, c)
	case "rtc":
		// run-to-completion: continue the active task if it has an enabled action, else oldest; pre-empt with P/16
		if int(c%16) < k.Sched.P {
			return pick(eager, c>>4)
		}
		for _, i := range eager {
			if acts[i].Task != "" && acts[i].Task == k.Active {
				return i
			}
		}
		return eager[0]
	case "starve", "window":
		var pref []int
		for _, i := range eager {
			if !starved(&acts[i], k.Sched.Starve) {
				pref = append(pref, i)
			}
		}
		// "window" starves strictly (the starved actions run only when nothing else can); "starve" leaks 1 step in 32
		if len(pref) == 0 || (k.Sched.Policy == "starve" && c%32 == 31) {
			pref = eager
		}
		return pick(pref, c>>5)
	default: // fifo with small perturbation
		if c%8 == 7 {
			return pick(eager, c>>3)
		}
		return eager[0]
	}
}

// Step picks and fires one enabled action; false if none is enabled.
func (k *Kernel) Step() bool {
	acts := k.Enabled()
	if len(acts) == 0 {
		return false
	}
	i := k.choose(acts)
	a := acts[i]
	k.mu.Lock()
	k.StepN++
	k.Active = a.Task
	if k.Active == "" {
		k.Active = a.Key
	}
	if k.Verbose {
		ks := make([]string, len(acts))
		for j, x := range acts {
			ks[j] = x.Key
		}
		k.Trace = append(k.Trace, fmt.Sprintf("  enabled=%v", ks))
	}
	k.Trace = append(k.Trace, a.Key)
	k.mu.Unlock()
	if k.OnStep != nil {
		k.OnStep(&a)
	}
	a.Fire()
	return true
}

// Idle reports whether nothing at all is enabled (including timers).
func (k *Kernel) Idle() bool { return len(k.Enabled()) == 0 }

// EnabledKeys lists the keys of the enabled actions (diagnostics).
func (k *Kernel) EnabledKeys() []string {
	var out []string
	for _, a := range k.Enabled() {
		out = append(out, a.Key)
	}
	return out
}

// TraceHash hashes the action trace.
func (k *Kernel) TraceHash() uint64 {
	h := fnv.New64a()
	for _, t := range k.Trace {
		h.Write([]byte(t))
		h.Write([]byte{0})
	}
	return h.Sum64()
}
