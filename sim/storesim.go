package sim

// C15 — store-level simulation: several simulated clients on the real v2 / v3 stores over the fake Atomix runtime;
// linearizability per record (porcupine), monotonicity, watch delivery and cancel invariants.

import (
	"context"
	"fmt"
	"runtime/debug"
	"sort"
	"strings"
	"testing"
	"testing/synctest"
	"time"

	"github.com/anishathalye/porcupine"
	"github.com/google/uuid"
	configv2 "github.com/onosproject/onos-api/go/onos/config/v2"
	configv3 "github.com/onosproject/onos-api/go/onos/config/v3"
	cfgv2 "github.com/onosproject/onos-config/pkg/store/v2/configuration"
	propv2 "github.com/onosproject/onos-config/pkg/store/v2/proposal"
	txv2 "github.com/onosproject/onos-config/pkg/store/v2/transaction"
	cfgv3 "github.com/onosproject/onos-config/pkg/store/v3/configuration"
	txv3 "github.com/onosproject/onos-config/pkg/store/v3/transaction"
	"github.com/onosproject/onos-config/pkg/verifrt"
	"github.com/onosproject/onos-lib-go/pkg/errors"
	"math/rand"
)

// SOp is one client operation of a store scenario.
type SOp struct {
	Op     string `json:"op"`               // create | get | update | status | list | watch | stop | cancel
	Key    int    `json:"key"`              // key ordinal (-1: all, for watch)
	Replay bool   `json:"replay,omitempty"` // watch
	W      int    `json:"w,omitempty"`      // stop / cancel: which of this client's watches (ordinal)
}

// StorePlan is the storesim part of a plan.
type StorePlan struct {
	Kind         string  `json:"kind"` // v2tx | v2prop | v2cfg | v3tx | v3cfg
	Clients      [][]SOp `json:"clients"`
	TwoInstances bool    `json:"twoInstances,omitempty"`
}

type srec struct {
	key    string
	marker string
	ver    uint64
	idx    uint64
	obj    any
	typ    string
}

type storeAPI struct {
	create func(ctx context.Context, key, marker string) (srec, error)
	get    func(ctx context.Context, key string, hint srec) (srec, error)
	update func(ctx context.Context, base srec, marker string, statusOnly bool) (srec, error)
	list   func(ctx context.Context) ([]srec, error)
	watch  func(ctx context.Context, key string, hint srec, replay bool, out func(srec)) (stop func(), err error)
}

var storeKeys = map[string][]string{
	"v2tx":   {"uuid:k1", "uuid:k2", "uuid:k3"},
	"v2prop": {"t1-1", "t1-2", "t2-1"},
	"v2cfg":  {"t1-m-1", "t2-m-1"},
	"v3tx":   {"t1/k1", "t1/k2", "t2/k1"},
	"v3cfg":  {"t1", "t2"},
}

func v3target(id string) configv3.Target {
	return configv3.Target{ID: configv3.TargetID(id), Type: "m", Version: "1"}
}

// typed channel pump: forwards until the consumer stops reading (stop closed) or the channel closes
func pump[E any](ch <-chan E, stop <-chan struct{}, conv func(E) srec, out func(srec)) {
	go func() {
		for {
			select {
			case e, ok := <-ch:
				if !ok {
					// the store ended the watch by closing the consumer's channel
					out(srec{typ: "CLOSED"})
					return
				}
				out(conv(e))
			case <-stop:
				return
			}
		}
	}()
}

func newStoreAPI(kind string, cl *AtomixClient) (*storeAPI, error) {
	a := &storeAPI{}
	switch kind {
	case "v2tx":
		st, err := txv2.NewAtomixStore(cl)
		if err != nil {
			return nil, err
		}
		conv := func(t *configv2.Transaction) srec {
			return srec{key: string(t.ID), marker: t.Username, ver: t.Version, idx: uint64(t.Index), obj: t}
		}
		a.create = func(ctx context.Context, key, marker string) (srec, error) {
			t := &configv2.Transaction{ID: configv2.TransactionID(key), Username: marker}
			if err := st.Create(ctx, t); err != nil {
				return srec{}, err
			}
			return conv(t), nil
		}
		a.get = func(ctx context.Context, key string, hint srec) (srec, error) {
			if hint.idx != 0 && hint.idx%2 == 0 {
				t, err := st.GetByIndex(ctx, configv2.Index(hint.idx))
				if err != nil {
					return srec{}, err
				}
				return conv(t), nil
			}
			t, err := st.Get(ctx, configv2.TransactionID(key))
			if err != nil {
				return srec{}, err
			}
			return conv(t), nil
		}
		a.update = func(ctx context.Context, base srec, marker string, statusOnly bool) (srec, error) {
			t := *(base.obj.(*configv2.Transaction))
			t.Username = marker
			var err error
			if statusOnly {
				err = st.UpdateStatus(ctx, &t)
			} else {
				err = st.Update(ctx, &t)
			}
			if err != nil {
				return srec{}, err
			}
			return conv(&t), nil
		}
		a.list = func(ctx context.Context) ([]srec, error) {
			l, err := st.List(ctx)
			var out []srec
			for _, t := range l {
				out = append(out, conv(t))
			}
			return out, err
		}
		a.watch = func(ctx context.Context, key string, hint srec, replay bool, out func(srec)) (func(), error) {
			ch := make(chan configv2.TransactionEvent)
			var opts []txv2.WatchOption
			if replay {
				opts = append(opts, txv2.WithReplay())
			}
			if key != "" {
				opts = append(opts, txv2.WithTransactionID(configv2.TransactionID(key)))
			}
			if err := st.Watch(ctx, ch, opts...); err != nil {
				return nil, err
			}
			stop := make(chan struct{})
			pump(ch, stop, func(e configv2.TransactionEvent) srec { r := conv(&e.Transaction); r.typ = e.Type.String(); return r }, out)
			return func() { close(stop) }, nil
		}
	case "v2prop":
		st, err := propv2.NewAtomixStore(cl)
		if err != nil {
			return nil, err
		}
		conv := func(p *configv2.Proposal) srec {
			return srec{key: string(p.ID), marker: string(p.TargetVersion), ver: p.Version, obj: p}
		}
		a.create = func(ctx context.Context, key, marker string) (srec, error) {
			tgt := key[:strings.LastIndex(key, "-")]
			p := &configv2.Proposal{ID: configv2.ProposalID(key), TargetID: configv2.TargetID(tgt), TransactionIndex: 1}
			p.TargetVersion = configv2.TargetVersion(marker)
			if err := st.Create(ctx, p); err != nil {
				return srec{}, err
			}
			return conv(p), nil
		}
		a.get = func(ctx context.Context, key string, hint srec) (srec, error) {
			p, err := st.Get(ctx, configv2.ProposalID(key))
			if err != nil {
				return srec{}, err
			}
			return conv(p), nil
		}
		a.update = func(ctx context.Context, base srec, marker string, statusOnly bool) (srec, error) {
			p := *(base.obj.(*configv2.Proposal))
			p.TargetVersion = configv2.TargetVersion(marker)
			var err error
			if statusOnly {
				err = st.UpdateStatus(ctx, &p)
			} else {
				err = st.Update(ctx, &p)
			}
			if err != nil {
				return srec{}, err
			}
			return conv(&p), nil
		}
		a.list = func(ctx context.Context) ([]srec, error) {
			l, err := st.List(ctx)
			var out []srec
			for _, p := range l {
				out = append(out, conv(p))
			}
			return out, err
		}
		a.watch = func(ctx context.Context, key string, hint srec, replay bool, out func(srec)) (func(), error) {
			ch := make(chan configv2.ProposalEvent)
			var opts []propv2.WatchOption
			if replay {
				opts = append(opts, propv2.WithReplay())
			}
			if key != "" {
				opts = append(opts, propv2.WithProposalID(configv2.ProposalID(key)))
			}
			if err := st.Watch(ctx, ch, opts...); err != nil {
				return nil, err
			}
			stop := make(chan struct{})
			pump(ch, stop, func(e configv2.ProposalEvent) srec { r := conv(&e.Proposal); r.typ = e.Type.String(); return r }, out)
			return func() { close(stop) }, nil
		}
	case "v2cfg":
		st, err := cfgv2.NewAtomixStore(cl)
		if err != nil {
			return nil, err
		}
		conv := func(c *configv2.Configuration) srec {
			return srec{key: string(c.ID), marker: c.Status.Mastership.Master, ver: c.Version, obj: c}
		}
		a.create = func(ctx context.Context, key, marker string) (srec, error) {
			c := &configv2.Configuration{ID: configv2.ConfigurationID(key), TargetID: configv2.TargetID(key[:2])}
			c.Status.Mastership.Master = marker
			if err := st.Create(ctx, c); err != nil {
				return srec{}, err
			}
			return conv(c), nil
		}
		a.get = func(ctx context.Context, key string, hint srec) (srec, error) {
			c, err := st.Get(ctx, configv2.ConfigurationID(key))
			if err != nil {
				return srec{}, err
			}
			return conv(c), nil
		}
		a.update = func(ctx context.Context, base srec, marker string, statusOnly bool) (srec, error) {
			c := *(base.obj.(*configv2.Configuration))
			c.Status.Mastership.Master = marker
			c.Values = nil
			c.Status.Applied.Values = nil
			var err error
			if statusOnly {
				err = st.UpdateStatus(ctx, &c)
			} else {
				err = st.Update(ctx, &c)
			}
			if err != nil {
				return srec{}, err
			}
			return conv(&c), nil
		}
		a.list = func(ctx context.Context) ([]srec, error) {
			l, err := st.List(ctx)
			var out []srec
			for _, c := range l {
				out = append(out, conv(c))
			}
			return out, err
		}
		a.watch = func(ctx context.Context, key string, hint srec, replay bool, out func(srec)) (func(), error) {
			ch := make(chan configv2.ConfigurationEvent)
			var opts []cfgv2.WatchOption
			if replay {
				opts = append(opts, cfgv2.WithReplay())
			}
			if key != "" {
				opts = append(opts, cfgv2.WithConfigurationID(configv2.ConfigurationID(key)))
			}
			if err := st.Watch(ctx, ch, opts...); err != nil {
				return nil, err
			}
			stop := make(chan struct{})
			pump(ch, stop, func(e configv2.ConfigurationEvent) srec {
				r := conv(&e.Configuration)
				r.typ = e.Type.String()
				return r
			}, out)
			return func() { close(stop) }, nil
		}
	case "v3tx":
		st, err := txv3.NewAtomixStore(cl)
		if err != nil {
			return nil, err
		}
		conv := func(t *configv3.Transaction) srec {
			m := ""
			if pv, ok := t.Values["/m"]; ok {
				m = string(pv.Value.Bytes)
			}
			return srec{key: string(t.ID.Target.ID) + "/" + t.Key, marker: m, ver: t.Version, idx: uint64(t.ID.Index), obj: t}
		}
		mk := func(marker string) map[string]configv3.PathValue {
			return map[string]configv3.PathValue{"/m": {Path: "/m", Value: configv3.TypedValue{Bytes: []byte(marker), Type: configv3.ValueType_STRING}}}
		}
		a.create = func(ctx context.Context, key, marker string) (srec, error) {
			parts := strings.SplitN(key, "/", 2)
			t := &configv3.Transaction{ID: configv3.TransactionID{Target: v3target(parts[0])}, Values: mk(marker)}
			t.Key = parts[1]
			if err := st.Create(ctx, t); err != nil {
				return srec{}, err
			}
			return conv(t), nil
		}
		a.get = func(ctx context.Context, key string, hint srec) (srec, error) {
			parts := strings.SplitN(key, "/", 2)
			if hint.idx != 0 && hint.idx%2 == 0 {
				t, err := st.Get(ctx, configv3.TransactionID{Target: v3target(parts[0]), Index: configv3.Index(hint.idx)})
				if err != nil {
					return srec{}, err
				}
				return conv(t), nil
			}
			t, err := st.GetKey(ctx, v3target(parts[0]), parts[1])
			if err != nil {
				return srec{}, err
			}
			return conv(t), nil
		}
		a.update = func(ctx context.Context, base srec, marker string, statusOnly bool) (srec, error) {
			t := *(base.obj.(*configv3.Transaction))
			t.Values = mk(marker)
			var err error
			if statusOnly {
				err = st.UpdateStatus(ctx, &t)
			} else {
				err = st.Update(ctx, &t)
			}
			if err != nil {
				return srec{}, err
			}
			return conv(&t), nil
		}
		a.list = func(ctx context.Context) ([]srec, error) {
			l, err := st.List(ctx)
			var out []srec
			for i := range l {
				out = append(out, conv(&l[i]))
			}
			return out, err
		}
		a.watch = func(ctx context.Context, key string, hint srec, replay bool, out func(srec)) (func(), error) {
			ch := make(chan configv3.TransactionEvent)
			var opts []txv3.WatchOption
			if replay {
				opts = append(opts, txv3.WithReplay())
			}
			if key != "" {
				parts := strings.SplitN(key, "/", 2)
				opts = append(opts, txv3.WithTransactionID(configv3.TransactionID{Target: v3target(parts[0]), Index: configv3.Index(hint.idx)}))
			}
			if err := st.Watch(ctx, ch, opts...); err != nil {
				return nil, err
			}
			stop := make(chan struct{})
			pump(ch, stop, func(e configv3.TransactionEvent) srec { r := conv(&e.Transaction); r.typ = e.Type.String(); return r }, out)
			return func() { close(stop) }, nil
		}
	case "v3cfg":
		st, err := cfgv3.NewAtomixStore(cl)
		if err != nil {
			return nil, err
		}
		conv := func(c *configv3.Configuration) srec {
			m := ""
			if c.Status.Mastership != nil {
				m = string(c.Status.Mastership.Master)
			}
			return srec{key: string(c.ID.Target.ID), marker: m, ver: c.Version, obj: c}
		}
		a.create = func(ctx context.Context, key, marker string) (srec, error) {
			c := &configv3.Configuration{ID: configv3.ConfigurationID{Target: v3target(key)}}
			c.Status.Mastership = &configv3.MastershipStatus{Master: configv3.NodeID(marker)}
			if err := st.Create(ctx, c); err != nil {
				return srec{}, err
			}
			return conv(c), nil
		}
		a.get = func(ctx context.Context, key string, hint srec) (srec, error) {
			c, err := st.Get(ctx, configv3.ConfigurationID{Target: v3target(key)})
			if err != nil {
				return srec{}, err
			}
			return conv(c), nil
		}
		a.update = func(ctx context.Context, base srec, marker string, statusOnly bool) (srec, error) {
			c := *(base.obj.(*configv3.Configuration))
			c.Status.Mastership = &configv3.MastershipStatus{Master: configv3.NodeID(marker)}
			c.Committed.Values = nil
			c.Applied.Values = nil
			var err error
			if statusOnly {
				err = st.UpdateStatus(ctx, &c)
			} else {
				err = st.Update(ctx, &c)
			}
			if err != nil {
				return srec{}, err
			}
			return conv(&c), nil
		}
		a.list = func(ctx context.Context) ([]srec, error) {
			l, err := st.List(ctx)
			var out []srec
			for _, c := range l {
				out = append(out, conv(c))
			}
			return out, err
		}
		a.watch = func(ctx context.Context, key string, hint srec, replay bool, out func(srec)) (func(), error) {
			ch := make(chan configv3.ConfigurationEvent)
			var opts []cfgv3.WatchOption
			if replay {
				opts = append(opts, cfgv3.WithReplay())
			}
			if key != "" {
				opts = append(opts, cfgv3.WithConfigurationID(configv3.ConfigurationID{Target: v3target(key)}))
			}
			if err := st.Watch(ctx, ch, opts...); err != nil {
				return nil, err
			}
			stop := make(chan struct{})
			pump(ch, stop, func(e configv3.ConfigurationEvent) srec {
				r := conv(&e.Configuration)
				r.typ = e.Type.String()
				return r
			}, out)
			return func() { close(stop) }, nil
		}
	default:
		return nil, fmt.Errorf("unknown store kind %s", kind)
	}
	return a, nil
}

// ---- history and model

type sIn struct {
	Op      string
	Marker  string
	BasedOn uint64
}

type sOut struct {
	Class  string // ok | notfound | exists | conflict | ambiguous | other:<..>
	Marker string
	Ver    uint64
	Idx    uint64
}

type sState struct {
	Exists   bool
	Marker   string
	Ver      uint64
	VerKnown bool
}

func errClass(err error) string {
	switch {
	case err == nil:
		return "ok"
	case errors.IsNotFound(err):
		return "notfound"
	case errors.IsAlreadyExists(err):
		return "exists"
	case errors.IsConflict(err):
		return "conflict"
	case errors.IsUnavailable(err):
		return "ambiguous"
	}
	return "other:" + err.Error()
}

var storeModel = porcupine.NondeterministicModel{
	Init: func() []any { return []any{sState{}} },
	Step: func(st any, in any, out any) []any {
		s, i, o := st.(sState), in.(sIn), out.(sOut)
		switch i.Op {
		case "get":
			if o.Class == "ambiguous" {
				return []any{s} // the read failed (store unavailable): it observed nothing
			}
			if o.Class == "notfound" {
				if !s.Exists {
					return []any{s}
				}
				return nil
			}
			if o.Class != "ok" || !s.Exists || s.Marker != o.Marker {
				return nil
			}
			if s.VerKnown && s.Ver != o.Ver {
				return nil
			}
			return []any{sState{Exists: true, Marker: s.Marker, Ver: o.Ver, VerKnown: true}}
		case "create":
			switch o.Class {
			case "ok":
				if s.Exists {
					return nil
				}
				return []any{sState{Exists: true, Marker: i.Marker, Ver: o.Ver, VerKnown: true}}
			case "exists":
				if s.Exists {
					return []any{s}
				}
				return nil
			case "ambiguous":
				if s.Exists {
					return []any{s}
				}
				return []any{s, sState{Exists: true, Marker: i.Marker}}
			}
			return nil
		case "update", "status":
			canMatch := s.Exists && (!s.VerKnown || s.Ver == i.BasedOn)
			mustMatch := s.Exists && s.VerKnown && s.Ver == i.BasedOn
			switch o.Class {
			case "ok":
				if !canMatch || o.Ver <= i.BasedOn {
					return nil
				}
				return []any{sState{Exists: true, Marker: i.Marker, Ver: o.Ver, VerKnown: true}}
			case "conflict":
				if !s.Exists || mustMatch {
					return nil
				}
				return []any{s}
			case "notfound":
				if s.Exists {
					return nil
				}
				return []any{s}
			case "ambiguous":
				if canMatch {
					return []any{s, sState{Exists: true, Marker: i.Marker}}
				}
				return []any{s}
			}
			return nil
		}
		return nil
	},
	Equal: func(a, b any) bool { return a.(sState) == b.(sState) },
}

// ---- run

type sWatch struct {
	client    int
	ord       int
	key       string
	replay    bool
	startStep int
	last      map[string]srec
	count     int
	stopFn    func()
	cancel    context.CancelFunc
	stopped   bool
	cancelled bool
	closed    bool
}

type sClient struct {
	n       int
	ops     []SOp
	next    int
	busy    bool
	cache   map[string]srec
	watches []*sWatch
	api     *storeAPI
	lastVer map[string]uint64
}

func genStorePlan(seed uint64, tier string) *Plan {
	g := NewGen(seed)
	kinds := []string{"v2tx", "v2prop", "v2cfg", "v3tx", "v3cfg"}
	kind := kinds[g.pick(len(kinds))]
	p := &Plan{Property: "C15", Profile: "store/" + kind, Seed: seed}
	sp := &StorePlan{Kind: kind, TwoInstances: g.chance(1, 4)}
	nk := len(storeKeys[kind])
	nc := 2 + g.pick(3)
	maxOps := 8
	if tier == "thorough" {
		maxOps = 12
	}
	// One run in four is about several watchers of ONE record (wave 5): every client reads the record (so that it can be
	// named, and updated from a read version), most of them watch it by id, and the tail of each script mixes updates of
	// that record with stops / cancels of the client's own watch and new watches. What is checked is unchanged: after the
	// cancels every surviving watcher must still be shown the record's latest state.
	idwatch := g.chance(1, 4)
	focus := g.pick(nk)
	if idwatch {
		p.Profile += "+idwatch"
	}
	for c := 0; c < nc && idwatch; c++ {
		ops := []SOp{{Op: "create", Key: focus}, {Op: "get", Key: focus}}
		nw := 0
		if c == 0 || g.chance(3, 4) {
			ops = append(ops, SOp{Op: "watch", Key: focus, Replay: g.chance(1, 2)})
			nw++
		}
		n := 3 + g.pick(maxOps-2)
		for i := 0; i < n; i++ {
			switch x := g.pick(20); {
			case x < 7:
				ops = append(ops, SOp{Op: "update", Key: focus})
			case x < 10:
				ops = append(ops, SOp{Op: "status", Key: focus})
			case x < 13:
				ops = append(ops, SOp{Op: "get", Key: focus})
			case x < 15:
				ops = append(ops, SOp{Op: "watch", Key: focus, Replay: g.chance(1, 2)})
				nw++
			case x < 16:
				ops = append(ops, SOp{Op: "watch", Key: -1, Replay: g.chance(1, 2)})
				nw++
			case x < 17:
				if nw > 0 {
					ops = append(ops, SOp{Op: "stop", W: g.pick(nw)})
				}
			default:
				if nw > 0 {
					ops = append(ops, SOp{Op: "cancel", W: g.pick(nw)})
				}
			}
		}
		sp.Clients = append(sp.Clients, ops)
	}
	for c := 0; c < nc && !idwatch; c++ {
		var ops []SOp
		n := 3 + g.pick(maxOps-2)
		nw := 0
		for i := 0; i < n; i++ {
			k := g.pick(nk)
			switch x := g.pick(20); {
			case x < 4:
				ops = append(ops, SOp{Op: "create", Key: k})
			case x < 8:
				ops = append(ops, SOp{Op: "get", Key: k})
			case x < 12:
				ops = append(ops, SOp{Op: "update", Key: k})
			case x < 15:
				ops = append(ops, SOp{Op: "status", Key: k})
			case x < 16:
				ops = append(ops, SOp{Op: "list"})
			case x < 18:
				wk := k
				if g.chance(1, 2) {
					wk = -1
				}
				ops = append(ops, SOp{Op: "watch", Key: wk, Replay: g.chance(1, 2)})
				nw++
			case x < 19:
				if nw > 0 {
					ops = append(ops, SOp{Op: "stop", W: g.pick(nw)})
				}
			default:
				if nw > 0 {
					ops = append(ops, SOp{Op: "cancel", W: g.pick(nw)})
				}
			}
		}
		sp.Clients = append(sp.Clients, ops)
	}
	p.Store = sp
	p.Sched = g.RandSched()
	if p.Sched.Policy == "starve" {
		p.Sched.Starve = []string{"ev/", "op/" + "transactions", "cli/", "op/proposals", "ev/configurations"}[g.pick(5)]
	}
	if g.chance(1, 3) {
		p.Profile += "+op-faults"
		for i := 0; i <= g.pick(2); i++ {
			p.Faults = append(p.Faults, Fault{Kind: []string{"op-unavail", "op-acklost"}[g.pick(2)], On: "write", N: 1 + g.pick(12)})
		}
	}
	if g.chance(1, 2) {
		p.Knobs.MapSeed = g.R.Uint64() | 1
	}
	return p
}

func init() {
	Profiles["C15"] = &Profile{
		Property: "C15", Engine: "storesim",
		Rule: "non-trivial: at least two clients wrote the same record (conditional updates from a read version) or a watcher received events while another watcher was stopped or cancelled; distinct = distinct action-trace hash",
		Gen:  genStorePlan,
		Run:  runStore,
	}
}

func runStore(t *testing.T, plan *Plan) *Result {
	res := &Result{Plan: plan, Porcupine: map[string]int{}}
	start := time.Now()
	var hist []porcupine.Operation
	func() {
		defer func() {
			if p := recover(); p != nil {
				msg := fmt.Sprint(p)
				if !strings.Contains(msg, "deadlock: main bubble goroutine has exited") {
					res.Harness = "panic: " + msg
					res.PanicStack = string(debug.Stack())
				}
			}
		}()
		synctest.Test(t, func(t *testing.T) {
			hist = storeBubble(plan, res)
		})
	}()
	// linearizability per record key, outside the bubble (real timeouts)
	if res.Harness == "" && len(hist) > 0 {
		byKey := map[string][]porcupine.Operation{}
		for _, op := range hist {
			k := op.Metadata.(string)
			byKey[k] = append(byKey[k], op)
		}
		keys := make([]string, 0, len(byKey))
		for k := range byKey {
			keys = append(keys, k)
		}
		sort.Strings(keys)
		model := storeModel.ToModel()
		for _, k := range keys {
			ops := byKey[k]
			if len(ops) > 40 {
				ops = ops[:40]
			}
			r := porcupine.CheckOperationsTimeout(model, ops, 30*time.Second)
			switch r {
			case porcupine.Ok:
				res.Porcupine["ok"]++
			case porcupine.Illegal:
				res.Porcupine["illegal"]++
				var lines []string
				for _, o := range ops {
					lines = append(lines, fmt.Sprintf("c%d [%d,%d] %+v -> %+v", o.ClientId, o.Call, o.Return, o.Input, o.Output))
				}
				res.Viol = append(res.Viol, &Violation{Property: "C15", Oracle: "linearizability", Sig: "C15/linearizability/" + plan.Store.Kind,
					Msg: fmt.Sprintf("history of record %s is not linearizable against the versioned-register model: %s", k, strings.Join(lines, "; "))})
			default:
				res.Porcupine["unknown"]++
			}
		}
	}
	res.WallMs = float64(time.Since(start).Microseconds()) / 1000
	return res
}

func storeBubble(plan *Plan, res *Result) []porcupine.Operation {
	sp := plan.Store
	uuid.SetRand(seededReader{rand.New(rand.NewSource(int64(plan.Seed)))})
	rand.Seed(int64(plan.Seed))
	verifrt.Seed.Store(plan.Knobs.MapSeed)
	k := NewKernel(&plan.Sched)
	eff := &Effects{}
	rt := NewRuntime(k, eff)
	defer rt.Stop()
	rt.NoParkSubscribe = func(prim string) bool { return strings.HasPrefix(prim, "transactions-") }
	for _, f := range plan.Faults {
		switch f.Kind {
		case "op-unavail":
			rt.OpFaults[f.N] = "unavail"
		case "op-acklost":
			rt.OpFaults[f.N] = "acklost"
		}
	}
	report := func(oracle, shape, msg string) {
		sig := "C15/" + oracle + "/" + shape
		for _, v := range res.Viol {
			if v.Sig == sig {
				return
			}
		}
		res.Viol = append(res.Viol, &Violation{Property: "C15", Oracle: oracle, Sig: sig, Msg: k.Canon(msg), Step: k.StepN})
	}
	// store instances (construction performs Atomix calls: run as tasks)
	ninst := 1
	if sp.TwoInstances {
		ninst = 2
	}
	apis := make([]*storeAPI, ninst)
	var acl []*AtomixClient
	for i := 0; i < ninst; i++ {
		cl := rt.NewClient()
		acl = append(acl, cl)
		done := make(chan error, 1)
		i := i
		k.Active = fmt.Sprintf("boot/%d", i)
		go func() {
			a, err := newStoreAPI(sp.Kind, cl)
			apis[i] = a
			done <- err
		}()
		for booted := false; !booted; {
			synctest.Wait()
			select {
			case err := <-done:
				if err != nil {
					res.Harness = "store construction: " + err.Error()
					return nil
				}
				booted = true
			default:
				if !k.Step() {
					res.Harness = "store construction stuck"
					return nil
				}
			}
		}
	}
	defer func() {
		for _, cl := range acl {
			cl.Close()
		}
	}()
	keys := storeKeys[sp.Kind]
	var hist []porcupine.Operation
	var clients []*sClient
	mseq := 0
	writers := map[string]map[int]bool{}
	for c, ops := range sp.Clients {
		clients = append(clients, &sClient{n: c, ops: ops, cache: map[string]srec{}, api: apis[c%ninst], lastVer: map[string]uint64{}})
	}
	type pendingOp struct {
		c      *sClient
		op     SOp
		call   int
		in     sIn
		key    string
		done   chan struct{}
		out    sOut
		err    error
		listed []srec
		got    srec
		w      *sWatch
	}
	var inflight []*pendingOp
	var allWatches []*sWatch
	indexSeen := map[string]string{}
	finish := func(p *pendingOp) {
		ret := 2*k.StepN + 1
		c := p.c
		c.busy = false
		switch p.op.Op {
		case "create", "update", "status", "get":
			p.out.Class = errClass(p.err)
			if p.err == nil {
				p.out.Marker, p.out.Ver, p.out.Idx = p.got.marker, p.got.ver, p.got.idx
				c.cache[p.key] = p.got
				// versions seen by one client for one record never decrease
				if p.got.ver < c.lastVer[p.key] {
					report("monotonic", "version-decreased", fmt.Sprintf("client %d saw version %d of %s after version %d", c.n, p.got.ver, p.key, c.lastVer[p.key]))
				}
				c.lastVer[p.key] = p.got.ver
				if p.got.idx != 0 {
					ik := fmt.Sprintf("%s#%d", idxScope(sp.Kind, p.key), p.got.idx)
					if prev, ok := indexSeen[ik]; ok && prev != p.key {
						report("index", "reused", fmt.Sprintf("log index %s names both %s and %s", ik, prev, p.key))
					}
					indexSeen[ik] = p.key
				}
				if p.op.Op != "get" {
					if writers[p.key] == nil {
						writers[p.key] = map[int]bool{}
					}
					writers[p.key][c.n] = true
				}
			} else if strings.HasPrefix(p.out.Class, "other:") {
				report("store-call", "unexpected-error", fmt.Sprintf("client %d %s %s: %v", c.n, p.op.Op, p.key, p.err))
			}
			hist = append(hist, porcupine.Operation{ClientId: c.n, Input: p.in, Call: int64(p.call), Output: p.out, Return: int64(ret), Metadata: p.key})
		case "list":
			if p.err == nil {
				got := map[string]bool{}
				for _, r := range p.listed {
					c.cache[r.key] = r
					got[r.key] = true
				}
				// every record whose creation had returned before the list was invoked must be listed
				for _, o := range hist {
					in, out := o.Input.(sIn), o.Output.(sOut)
					if in.Op == "create" && out.Class == "ok" && o.Return < int64(p.call) && !got[o.Metadata.(string)] {
						report("list", "missing-record", fmt.Sprintf("client %d: List did not return %s, created earlier (listed %d records)", c.n, o.Metadata.(string), len(p.listed)))
					}
				}
			} else if errClass(p.err) != "ambiguous" {
				report("store-call", "list-error", fmt.Sprintf("client %d: List failed: %v", c.n, p.err))
			}
		case "watch":
			// a watch is in force once Watch has returned: only writes invoked after that step must be delivered
			if p.w != nil {
				p.w.startStep = k.StepN
			}
		}
	}
	k.AddSource("store-clients", func() []Action {
		var acts []Action
		for _, c := range clients {
			c := c
			if c.busy || c.next >= len(c.ops) {
				continue
			}
			acts = append(acts, Action{Key: fmt.Sprintf("cli/%d", c.n), Task: fmt.Sprintf("cli/%d", c.n), Fire: func() {
				op := c.ops[c.next]
				c.next++
				ctx := context.Background()
				key := ""
				if op.Key >= 0 && op.Key < len(keys) {
					key = keys[op.Key]
				}
				p := &pendingOp{c: c, op: op, call: 2 * k.StepN, key: key, done: make(chan struct{})}
				switch op.Op {
				case "create":
					mseq++
					m := fmt.Sprintf("w%d", mseq)
					p.in = sIn{Op: "create", Marker: m}
					c.busy = true
					inflight = append(inflight, p)
					go func() { p.got, p.err = c.api.create(ctx, key, m); close(p.done) }()
				case "get":
					p.in = sIn{Op: "get"}
					c.busy = true
					inflight = append(inflight, p)
					hint := c.cache[key]
					go func() { p.got, p.err = c.api.get(ctx, key, hint); close(p.done) }()
				case "update", "status":
					base, ok := c.cache[key]
					if !ok {
						return // nothing read yet: the client has no version to update from
					}
					mseq++
					m := fmt.Sprintf("w%d", mseq)
					p.in = sIn{Op: op.Op, Marker: m, BasedOn: base.ver}
					c.busy = true
					inflight = append(inflight, p)
					go func() { p.got, p.err = c.api.update(ctx, base, m, op.Op == "status"); close(p.done) }()
				case "list":
					c.busy = true
					inflight = append(inflight, p)
					go func() { p.listed, p.err = c.api.list(ctx); close(p.done) }()
				case "watch":
					hint := c.cache[key]
					if sp.Kind == "v3tx" && key != "" && hint.idx == 0 {
						return // a v3 transaction is watched by (target, index): unknown before it was read
					}
					wctx, cancel := context.WithCancel(ctx)
					w := &sWatch{client: c.n, ord: len(c.watches), key: key, replay: op.Replay, startStep: k.StepN, last: map[string]srec{}, cancel: cancel}
					c.watches = append(c.watches, w)
					allWatches = append(allWatches, w)
					p.w = w
					w.startStep = 1 << 30
					c.busy = true
					inflight = append(inflight, p)
					go func() {
						var err error
						w.stopFn, err = c.api.watch(wctx, key, hint, op.Replay, func(r srec) {
							if r.typ == "CLOSED" {
								w.closed = true
								return
							}
							if w.cancelled {
								return // see the summary: deliveries after the cancellation are not observations
							}
							if r.typ == "DELETED" {
								return
							}
							if prev, ok := w.last[r.key]; ok && r.ver < prev.ver {
								// a replayed snapshot may overtake events still queued for this watcher: transient, the
								// statement only asks for the latest state eventually (checked at quiescence)
								k.Probe("c15-watch-transient-regression")
							}
							w.last[r.key] = r
							w.count++
						})
						p.err = err
						close(p.done)
					}()
				case "stop":
					if op.W < len(c.watches) {
						w := c.watches[op.W]
						if !w.stopped && !w.cancelled && w.stopFn != nil {
							w.stopped = true
							w.stopFn()
						}
					}
				case "cancel":
					if op.W < len(c.watches) {
						w := c.watches[op.W]
						if !w.cancelled {
							w.cancelled = true
							w.cancel()
						}
					}
				}
			}})
		}
		return acts
	})
	collect := func() {
		rest := inflight[:0]
		for _, p := range inflight {
			select {
			case <-p.done:
				finish(p)
			default:
				rest = append(rest, p)
			}
		}
		inflight = rest
	}
	run := func(budget int) bool {
		for n := 0; n < budget; n++ {
			synctest.Wait()
			collect()
			if !k.Step() {
				synctest.Wait()
				collect()
				return true
			}
		}
		return false
	}
	if !run(20000) {
		report("liveness", "no-quiescence", "store scenario did not become quiescent within 20000 steps")
	}
	// heal: a consumer that stopped reading is legal only until its context is cancelled - cancel them all, then
	// everything else must come to rest
	k.Fair = true
	k.Trace = append(k.Trace, "heal")
	for n := range rt.OpFaults {
		delete(rt.OpFaults, n)
	}
	for _, w := range allWatches {
		if w.stopped && !w.cancelled {
			w.cancelled = true
			w.cancel()
		}
	}
	if !run(20000) {
		report("liveness", "no-quiescence", "store scenario did not become quiescent after cancelling stopped consumers")
	}
	// (4) further store calls complete
	for _, p := range inflight {
		report("store-call", "blocked-"+p.op.Op, fmt.Sprintf("client %d: %s %s never returned", p.c.n, p.op.Op, p.key))
	}
	for _, c := range clients {
		if c.next < len(c.ops) && !c.busy {
			report("store-call", "client-stuck", fmt.Sprintf("client %d stopped at op %d", c.n, c.next))
		}
	}
	// (3) every live watcher was shown the latest state of every record in its scope
	final := map[string]srec{}
	if len(inflight) == 0 {
		// read the final state through a fresh client call of instance 0 (scheduler driven)
		type fin struct {
			recs []srec
			err  error
		}
		done := make(chan fin, 1)
		k.Active = "final-read"
		go func() {
			var out []srec
			for _, key := range keys {
				r, err := apis[0].get(context.Background(), key, srec{})
				if err == nil {
					out = append(out, r)
				} else if !errors.IsNotFound(err) {
					done <- fin{nil, err}
					return
				}
			}
			done <- fin{out, nil}
		}()
		var f fin
		got := false
		for n := 0; n < 5000 && !got; n++ {
			synctest.Wait()
			select {
			case f = <-done:
				got = true
			default:
				if !k.Step() {
					n = 5000
				}
			}
		}
		if !got || f.err != nil {
			report("store-call", "final-read-failed", fmt.Sprintf("final read did not complete (%v)", f.err))
		} else {
			for _, r := range f.recs {
				final[r.key] = r
			}
			// let the last events drain
			for n := 0; n < 2000; n++ {
				synctest.Wait()
				if !k.Step() {
					break
				}
			}
			synctest.Wait()
			for _, w := range allWatches {
				if w.stopped || w.cancelled || w.stopFn == nil {
					continue
				}
				if w.closed {
					// The store ended this watch itself (it closed the consumer's channel): the consumer has been told, nothing
					// is owed to it any more. Legitimate after a store error during the asynchronous replay (the v3
					// transaction store gives up on the first failed call); without any injected store fault it is not.
					if k.Stats["fault/op-unavailable"]+k.Stats["fault/op-ack-lost"] > 0 {
						k.Probe("c15-watch-ended-by-store-after-fault")
					} else {
						report("watch", "ended-by-store-without-fault", fmt.Sprintf("watcher c%d/w%d (key %q): the store closed the channel although the watch was not cancelled and no store call failed", w.client, w.ord, w.key))
					}
					continue
				}
				if sp.TwoInstances && sp.Kind == "v3tx" {
					// a v3 transaction store instance discovers the per-target logs of other instances lazily and does
					// not replay them: records written through another instance are outside "clients of one store"
					continue
				}
				for key, fr := range final {
					if w.key != "" && w.key != key {
						continue
					}
					last, seen := w.last[key]
					if !seen {
						if w.replay {
							report("watch", "missed-record-with-replay", fmt.Sprintf("watcher c%d/w%d (key %q, replay) was never shown %s (latest version %d)", w.client, w.ord, w.key, key, fr.ver))
						} else if fr.ver > 0 && writtenAfter(hist, key, w.startStep) {
							report("watch", "missed-record", fmt.Sprintf("watcher c%d/w%d (key %q, no replay, subscribed at step %d) was never shown %s although it was written later", w.client, w.ord, w.key, w.startStep, key))
						}
						continue
					}
					if last.ver != fr.ver || last.marker != fr.marker {
						if w.replay || writtenAfter(hist, key, w.startStep) {
							report("watch", "not-latest", fmt.Sprintf("watcher c%d/w%d (key %q) last saw %s version %d (%s); the store holds version %d (%s)", w.client, w.ord, w.key, key, last.ver, last.marker, fr.ver, fr.marker))
						}
					}
				}
			}
		}
	}
	// evidence
	multi := false
	for _, ws := range writers {
		if len(ws) >= 2 {
			multi = true
		}
	}
	watchWhileOther := false
	for _, w := range allWatches {
		if (w.stopped || w.cancelled) && len(allWatches) > 1 {
			for _, o := range allWatches {
				if o != w && o.count > 0 {
					watchWhileOther = true
				}
			}
		}
	}
	res.NonTrivial = multi || watchWhileOther
	res.Steps = k.StepN
	res.Trace = k.Trace
	res.TraceHash = fmt.Sprintf("%016x", k.TraceHash())
	res.Stats = k.Stats
	res.Probes = k.Probes
	res.Used = plan.Sched.Used()
	res.Effects = eff.N
	var sb strings.Builder
	for _, key := range keys {
		if r, ok := final[key]; ok {
			fmt.Fprintf(&sb, "%s=%s@%d ", key, r.marker, r.ver)
		}
	}
	fmt.Fprintf(&sb, "| ops=%d watches=%d", len(hist), len(allWatches))
	for _, w := range allWatches {
		if w.cancelled {
			// what a cancelled watch was still shown is decided inside the store by a Go select between "send the event" and
			// "context done" when a replay read is answered after the cancellation - real runtime randomness that no oracle
			// looks at (found by the determinism self-test after the +idwatch sub-profile made cancels frequent)
			fmt.Fprintf(&sb, " | c%d/w%d key=%q replay=%v stopped=%v cancelled=true", w.client, w.ord, w.key, w.replay, w.stopped)
			continue
		}
		fmt.Fprintf(&sb, " | c%d/w%d key=%q replay=%v start=%d stopped=%v cancelled=%v count=%d last=", w.client, w.ord, w.key, w.replay, w.startStep, w.stopped, w.cancelled, w.count)
		ks := make([]string, 0, len(w.last))
		for k2 := range w.last {
			ks = append(ks, k2)
		}
		sort.Strings(ks)
		for _, k2 := range ks {
			fmt.Fprintf(&sb, "%s@%d,", k2, w.last[k2].ver)
		}
	}
	res.Summary = k.Canon(sb.String())
	return hist
}

func idxScope(kind, key string) string {
	if kind == "v3tx" {
		return key[:strings.Index(key, "/")] // indexes are per target log
	}
	return ""
}

func writtenAfter(hist []porcupine.Operation, key string, step int) bool {
	for _, o := range hist {
		if o.Metadata.(string) != key {
			continue
		}
		in, out := o.Input.(sIn), o.Output.(sOut)
		if in.Op != "get" && out.Class == "ok" && int(o.Call) > 2*step+1 {
			return true
		}
	}
	return false
}
