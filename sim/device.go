package sim

// Fake gNMI device: one gRPC server per target over bufconn. State is a Tree (structured paths); master arbitration;
// request log; scripted faults on parked Sets.

import (
	"context"
	"fmt"
	"net"
	"strings"
	"sync"

	"github.com/openconfig/gnmi/proto/gnmi"
	"google.golang.org/grpc"
	"google.golang.org/grpc/codes"
	"google.golang.org/grpc/credentials/insecure"
	"google.golang.org/grpc/metadata"
	"google.golang.org/grpc/status"
	"google.golang.org/grpc/test/bufconn"
)

// DevReq is one logged southbound Set.
type DevReq struct {
	Step     int
	N        int // ordinal of this Set on this device (1-based, counted when it parks)
	Task     string
	Conn     string // canonical connection name
	Election uint64
	Ops      []MOp
	Outcome  string // "ok", "code:<c>", "apply-then-drop", "denied"
	Before   Tree   // device state before (only when it changed state)
}

// DevFault is a scripted answer for the n-th Set (by park order) of a device.
type DevFault struct {
	Kind string     // "code" | "apply-then-drop"
	Code codes.Code // for "code"
}

// Device is a fake gNMI target.
type Device struct {
	gnmi.UnimplementedGNMIServer
	k        *Kernel
	Target   string
	lis      *bufconn.Listener
	srv      *grpc.Server
	mu       sync.Mutex
	State    Tree
	MaxElect uint64
	Log      []*DevReq
	NSets    int
	Faults   map[int]DevFault // by Set ordinal
	// RejectValue: any Set containing an update whose value contains this string is refused with InvalidArgument (content rule)
	RejectValue string
	Eff         *Effects
	OnSet       func(r *DevReq)
	Restarts    int
	gen         int
	subs        []*devSub
	// Shared models the real connection manager: all Conn objects of a target wrap ONE gRPC channel, which reconnects by
	// itself. A connection loss fails the RPCs in flight and makes the device unreachable; once it is reachable again
	// every Conn object - also one a reconcile obtained before the loss - reaches the (possibly restarted) device.
	// Faults then act in the device's handlers (link / reachable) and never close a client connection.
	Shared    bool
	link      int
	reachable bool
	refused   map[string]codes.Code // definite refusals by request content (see Set)
	accepted    map[string]bool       // requests accepted before, by content
}

// NewDevice starts a fake device.
func NewDevice(k *Kernel, target string, eff *Effects) *Device {
	d := &Device{k: k, Target: target, State: Tree{}, Faults: map[int]DevFault{}, Eff: eff}
	d.start()
	return d
}

func (d *Device) start() {
	d.lis = bufconn.Listen(1 << 20)
	d.srv = grpc.NewServer()
	gnmi.RegisterGNMIServer(d.srv, d)
	lis := d.lis
	srv := d.srv
	go func() { _ = srv.Serve(lis) }()
}

// Stop stops the server.
func (d *Device) Stop() { d.srv.Stop() }

// RestartEmpty drops configuration and arbitration memory and replaces the server (all connections break).
func (d *Device) RestartEmpty() {
	d.mu.Lock()
	d.State = Tree{}
	d.MaxElect = 0
	d.Restarts++
	d.gen++
	if d.Shared {
		d.link++
		d.reachable = false
		d.mu.Unlock()
		return
	}
	d.mu.Unlock()
	d.srv.Stop()
	d.start()
}

// LinkDown (shared channel): RPCs in flight fail, the device is unreachable until LinkUp.
func (d *Device) LinkDown() {
	d.mu.Lock()
	d.link++
	d.reachable = false
	d.mu.Unlock()
}

// LinkUp (shared channel): the channel is ready again. flap: it had not been reported down (RPCs in flight fail all the same).
func (d *Device) LinkUp(flap bool) {
	d.mu.Lock()
	if flap {
		d.link++
	}
	d.reachable = true
	d.mu.Unlock()
}

// Dial opens a client connection to the device. Every RPC on it carries the (later filled) connection id as metadata so
// that the device can log which connection a write travelled on.
func (d *Device) Dial(connID *string) *grpc.ClientConn {
	lis := d.lis
	tag := func(ctx context.Context) context.Context {
		if connID != nil && *connID != "" {
			return metadata.AppendToOutgoingContext(ctx, "x-verif-conn", *connID)
		}
		return ctx
	}
	cc, err := grpc.Dial("passthrough:///"+d.Target,
		grpc.WithContextDialer(func(ctx context.Context, s string) (net.Conn, error) { return lis.DialContext(ctx) }),
		grpc.WithTransportCredentials(insecure.NewCredentials()),
		grpc.WithUnaryInterceptor(func(ctx context.Context, method string, req, reply any, cc *grpc.ClientConn, invoker grpc.UnaryInvoker, opts ...grpc.CallOption) error {
			return invoker(tag(ctx), method, req, reply, cc, opts...)
		}))
	if err != nil {
		panic(err)
	}
	return cc
}

// Set implements gNMI Set.
func (d *Device) Set(ctx context.Context, r *gnmi.SetRequest) (resp *gnmi.SetResponse, err error) {
	var el uint64
	for _, e := range r.Extension {
		if ma := e.GetMasterArbitration(); ma != nil && ma.ElectionId != nil {
			el = ma.ElectionId.Low
		}
	}
	d.mu.Lock()
	if d.Shared && !d.reachable {
		d.mu.Unlock()
		return nil, status.Error(codes.Unavailable, "device unreachable")
	}
	d.NSets++
	n := d.NSets
	gen := d.gen
	link := d.link
	d.mu.Unlock()
	rec := &DevReq{N: n, Election: el}
	if md, ok := metadata.FromIncomingContext(ctx); ok {
		if v := md.Get("x-verif-conn"); len(v) > 0 {
			rec.Conn = v[0]
		}
	}
	for _, p := range r.Delete {
		rec.Ops = append(rec.Ops, MOp{Del: true, P: PathFromGNMI(r.Prefix, p)})
	}
	for _, u := range r.Replace {
		rec.Ops = append(rec.Ops, MOp{P: PathFromGNMI(r.Prefix, u.Path), V: GnmiValueCanon(u.Val)})
	}
	for _, u := range r.Update {
		rec.Ops = append(rec.Ops, MOp{P: PathFromGNMI(r.Prefix, u.Path), V: GnmiValueCanon(u.Val)})
	}
	ok := d.k.Park(fmt.Sprintf("dev/%s/set", d.Target), func() {
		rec.Step = d.k.StepN
		rec.Task = d.k.Active
		d.mu.Lock()
		defer d.mu.Unlock()
		if gen != d.gen {
			rec.Outcome = "code:Unavailable(restarted)"
			err = status.Error(codes.Unavailable, "device restarted")
			d.Log = append(d.Log, rec)
			return
		}
		if d.Shared && (link != d.link || !d.reachable) {
			rec.Outcome = "code:Unavailable(connection lost)"
			err = status.Error(codes.Unavailable, "connection lost")
			d.Log = append(d.Log, rec)
			return
		}
		f, has := d.Faults[n]
		// A definite refusal is a verdict on the request: the same request sent again is refused again with the same
		// code (a device does not change its mind because the controller failed to record the answer). Transient
		// answers (Unavailable, Canceled, DeadlineExceeded) are one-shot.
		reqKey := fmt.Sprint(rec.Ops)
		contentRefused := false
		if d.RejectValue != "" {
			for _, o := range rec.Ops {
				if !o.Del && strings.Contains(o.V, d.RejectValue) {
					contentRefused = true
				}
			}
		}
		if contentRefused && has && f.Kind == "code" && f.Code != codes.Unavailable && f.Code != codes.Canceled && f.Code != codes.DeadlineExceeded {
			// the content rule is this device's verdict on the request, every time it is sent: an injected definite code
			// at the ordinal of a re-sent request must not replace it (the oracle would see two different refusals of
			// one request - a false alarm of the first version, found when the generators were extended in round 2)
			delete(d.Faults, n)
			has = false
			d.k.Probe("dev-refusal-superseded-by-content-rule")
		}
		if c, again := d.refused[reqKey]; again {
			delete(d.Faults, n)
			f, has = DevFault{Kind: "code", Code: c}, true
			d.k.Probe("dev-refusal-repeated")
		} else if has && f.Kind == "code" && strings.HasPrefix(rec.Task, "rec/configuration") && f.Code != codes.Unavailable && f.Code != codes.Canceled && f.Code != codes.DeadlineExceeded {
			// definite refusals are injected for the changes of transactions; a push of a re-synchronisation only repeats
			// what the device accepted before (refusing it for ever would keep the target from ever synchronising)
			delete(d.Faults, n)
			has = false
			d.k.Probe("dev-refusal-skipped-resync-push")
		} else if has && f.Kind == "code" && d.accepted[reqKey] && f.Code != codes.Unavailable && f.Code != codes.Canceled && f.Code != codes.DeadlineExceeded {
			// ... and a request it has accepted before (sent again because the controller could not record the answer)
			// is not refused now
			delete(d.Faults, n)
			has = false
			d.k.Probe("dev-refusal-suppressed-accepted-before")
		}
		if has && f.Kind == "code" {
			delete(d.Faults, n)
			rec.Outcome = "code:" + f.Code.String()
			d.k.Stat("fault/dev-error/" + f.Code.String())
			err = status.Error(f.Code, "injected device error")
			if f.Code != codes.Unavailable && f.Code != codes.Canceled && f.Code != codes.DeadlineExceeded {
				if d.refused == nil {
					d.refused = map[string]codes.Code{}
				}
				d.refused[reqKey] = f.Code
			}
			d.Log = append(d.Log, rec)
			if d.OnSet != nil {
				d.OnSet(rec)
			}
			return
		}
		if el < d.MaxElect {
			rec.Outcome = "denied"
			d.k.Probe("dev-arbitration-denied")
			err = status.Error(codes.PermissionDenied, "election id superseded")
			d.Log = append(d.Log, rec)
			if d.OnSet != nil {
				d.OnSet(rec)
			}
			return
		}
		if d.RejectValue != "" {
			for _, o := range rec.Ops {
				if !o.Del && strings.Contains(o.V, d.RejectValue) {
					rec.Outcome = "code:InvalidArgument(content)"
					d.k.Stat("fault/dev-content-reject")
					err = status.Error(codes.InvalidArgument, "device refuses value")
					d.Log = append(d.Log, rec)
					if d.OnSet != nil {
						d.OnSet(rec)
					}
					return
				}
			}
		}
		d.MaxElect = el
		rec.Before = d.State.Clone()
		d.State.ApplyOps(rec.Ops)
		if d.accepted == nil {
			d.accepted = map[string]bool{}
		}
		d.accepted[reqKey] = true
		if d.Eff != nil {
			d.Eff.Add("dev set " + d.Target)
		}
		rec.Outcome = "ok"
		resp = &gnmi.SetResponse{}
		if has && f.Kind == "apply-then-drop" {
			delete(d.Faults, n)
			rec.Outcome = "apply-then-drop"
			d.k.Stat("fault/dev-apply-then-drop")
			resp = nil
			err = status.Error(codes.Unavailable, "connection lost after apply")
		}
		d.Log = append(d.Log, rec)
		if d.OnSet != nil {
			d.OnSet(rec)
		}
	}, ctx)
	if !ok {
		return nil, status.Error(codes.Canceled, "withdrawn")
	}
	return
}

// Get implements gNMI Get: returns the device state as PROTO updates.
func (d *Device) Get(ctx context.Context, r *gnmi.GetRequest) (resp *gnmi.GetResponse, err error) {
	ok := d.k.Park(fmt.Sprintf("dev/%s/get", d.Target), func() {
		resp = &gnmi.GetResponse{}
	}, ctx)
	if !ok {
		return nil, status.Error(codes.Canceled, "withdrawn")
	}
	return
}

// Capabilities implements gNMI Capabilities.
func (d *Device) Capabilities(ctx context.Context, r *gnmi.CapabilityRequest) (*gnmi.CapabilityResponse, error) {
	d.mu.Lock()
	unreachable := d.Shared && !d.reachable
	d.mu.Unlock()
	if unreachable {
		return nil, status.Error(codes.Unavailable, "device unreachable")
	}
	d.k.Probe("dev-capabilities-asked")
	// the models of the synthetic plugin (plugin.go ModelInfo) and one the plugin does not know
	return &gnmi.CapabilityResponse{GNMIVersion: "0.7.0", SupportedModels: []*gnmi.ModelData{
		{Name: "other-model", Organization: "verif", Version: "2020-02-02"},
		{Name: "synthetic", Organization: "verif", Version: "2026-01-01"}}}, nil
}

// ---- Subscribe (used by subsim) ----

type devSub struct {
	d      *Device
	Reqs   []*gnmi.SubscribeRequest
	out    chan *gnmi.SubscribeResponse
	closed bool
}

// Subscribe implements gNMI Subscribe: records what it actually receives and emits scripted updates.
func (d *Device) Subscribe(stream gnmi.GNMI_SubscribeServer) error {
	s := &devSub{d: d, out: make(chan *gnmi.SubscribeResponse, 256)}
	d.mu.Lock()
	d.subs = append(d.subs, s)
	d.mu.Unlock()
	go func() {
		for {
			req, err := stream.Recv()
			if err != nil {
				d.mu.Lock()
				s.closed = true
				d.mu.Unlock()
				return
			}
			d.mu.Lock()
			s.Reqs = append(s.Reqs, req)
			d.mu.Unlock()
		}
	}()
	for {
		select {
		case r := <-s.out:
			if err := stream.Send(r); err != nil {
				return err
			}
		case <-stream.Context().Done():
			return nil
		}
	}
}

// Subs returns the subscribe streams seen so far.
func (d *Device) Subs() []*devSub {
	d.mu.Lock()
	defer d.mu.Unlock()
	return append([]*devSub{}, d.subs...)
}
