package sim

// RunPlan: one simulated run of a plan inside a synctest bubble.

import (
	"fmt"
	"runtime/debug"
	"strings"
	"testing"
	"testing/synctest"
	"time"
)

// Result is what one run reports.
type Result struct {
	Plan         *Plan             `json:"plan"`
	Viol         []*Violation      `json:"violations,omitempty"`
	TraceHash    string            `json:"traceHash"`
	Steps        int               `json:"steps"`
	Summary      string            `json:"summary"`
	Stats        map[string]int    `json:"stats,omitempty"`
	Probes       map[string]int    `json:"probes,omitempty"`
	SimTimeS     float64           `json:"simTimeS"`
	States       int               `json:"states"`
	StateHashes  []string          `json:"-"`
	NonTrivial   bool              `json:"nonTrivial"`
	Harness      string            `json:"harness,omitempty"` // harness trouble (never a violation)
	Trace        []string          `json:"-"`
	Used         []uint32          `json:"-"`
	Extra        map[string]string `json:"extra,omitempty"`
	WallMs       float64           `json:"wallMs"`
	Effects      int               `json:"effects"`
	Crashes      int               `json:"crashes"`
	CapHit       bool              `json:"capHit,omitempty"`
	PanicStack   string            `json:"panicStack,omitempty"`
	Porcupine    map[string]int    `json:"porcupine,omitempty"`
	abstractKeys map[string]bool
}

// Profile describes how a property's runs are generated and judged.
type Profile struct {
	Property string
	Engine   string // syssim | storesim | subsim | v3sim
	Gen      func(seed uint64, tier string) *Plan
	// GenOrd, when set, generates from (base seed, run ordinal) instead: consecutive ordinals may share a base scenario
	GenOrd func(base uint64, ord int, tier string) *Plan
	Arm    func(s *Sys)
	// NonTrivial decides whether a finished run counts as non-trivial for the property's rule.
	NonTrivial func(s *Sys) bool
	Rule       string
	// Run overrides the whole-system runner (other engines).
	Run func(t *testing.T, plan *Plan) *Result
}

// Profiles is the registry, filled by init() functions of the oracle files.
var Profiles = map[string]*Profile{}

// RunPlan executes one plan.
func RunPlan(t *testing.T, plan *Plan) *Result {
	prof := Profiles[plan.Property]
	if prof == nil {
		return &Result{Plan: plan, Harness: "unknown property " + plan.Property}
	}
	if prof.Run != nil {
		return prof.Run(t, plan)
	}
	return runSys(t, plan, prof)
}

func runSys(t *testing.T, plan *Plan, prof *Profile) *Result {
	res := &Result{Plan: plan}
	start := time.Now()
	func() {
		defer func() {
			if p := recover(); p != nil {
				msg := fmt.Sprint(p)
				if !strings.Contains(msg, "deadlock: main bubble goroutine has exited") {
					res.Harness = "panic: " + msg
					res.PanicStack = string(debug.Stack())
				}
			}
		}()
		synctest.Test(t, func(t *testing.T) {
			t0 := time.Now()
			s := NewSys(plan)
			defer s.Stop()
			if prof.Arm != nil {
				prof.Arm(s)
			}
			if err := s.Boot(); err != nil {
				res.Harness = err.Error()
				return
			}
			done := s.Run()
			res.CapHit = !done
			if done {
				s.Rec.Quiesce()
			} else {
				for _, m := range s.Mon {
					if x, ok := m.(interface{ OnCapHit() }); ok {
						x.OnCapHit()
					}
				}
			}
			res.Viol = s.Viol
			res.Steps = s.K.StepN
			res.Trace = s.K.Trace
			res.TraceHash = fmt.Sprintf("%016x", s.K.TraceHash())
			res.Summary = s.K.Canon(s.Rec.Summary())
			s.K.Stats["atomix-writes"] = s.RT.Writes
			res.Stats = s.K.Stats
			res.Probes = s.K.Probes
			res.SimTimeS = time.Since(t0).Seconds()
			res.States = len(s.Rec.States)
			res.Used = plan.Sched.Used()
			res.Effects = s.Eff.N
			res.Crashes = s.Crashes
			if prof.NonTrivial != nil {
				res.NonTrivial = prof.NonTrivial(s)
			}
			for _, m := range s.Mon {
				if x, ok := m.(interface{ FillExtra(map[string]string) }); ok {
					if res.Extra == nil {
						res.Extra = map[string]string{}
					}
					x.FillExtra(res.Extra)
				}
			}
			for st := range s.Rec.States {
				res.StateHashes = append(res.StateHashes, hash16(st))
			}
			for _, v := range s.Viol {
				if v.Property == "HARNESS" {
					res.Harness = v.Oracle + ": " + v.Msg
				}
			}
		})
	}()
	// harness pseudo-violations never count as property violations
	var keep []*Violation
	for _, v := range res.Viol {
		if v.Property != "HARNESS" {
			keep = append(keep, v)
		}
	}
	res.Viol = keep
	res.WallMs = float64(time.Since(start).Microseconds()) / 1000
	return res
}

func hash16(s string) string {
	var h uint64 = 1469598103934665603
	for i := 0; i < len(s); i++ {
		h ^= uint64(s[i])
		h *= 1099511628211
	}
	return fmt.Sprintf("%016x", h)
}
