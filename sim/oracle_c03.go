package sim

// C03 — stored configuration is the gNMI-sequential effect of acknowledged Sets. Get (PROTO and JSON, whole tree,
// sub-trees, wildcards) is compared at quiescence with the fold of the committed transactions in log order.

import (
	"fmt"
	"strings"

	configapi "github.com/onosproject/onos-api/go/onos/config/v2"
)

type c03 struct {
	s *Sys
}

func (m *c03) Name() string { return "C03" }

// committedByRecord: the system's own record says the transaction's changes were merged.
func committedByRecord(tx *configapi.Transaction) bool {
	return tx != nil && tx.Status.Phases.Commit != nil && tx.Status.Phases.Commit.State == configapi.TransactionCommitPhase_COMMITTED
}

// ObservedFold folds the log following the system's own commit decisions.
func (s *Sys) ObservedFold() *Model {
	return Fold(s.ModelLog(), func(tx *MTx, predicted bool) bool { return committedByRecord(s.Rec.Txs[tx.Index]) })
}

// GenQueries draws Get queries: whole tree, schema nodes at every depth, list entries, wildcards.
func (g *Gen) GenQueries(targets []string, n int, scen ...[]ClientOp) []ClientOp {
	var out []ClientOp
	for _, t := range targets {
		out = append(out, ClientOp{Kind: "get", Target: t}, ClientOp{Kind: "get", Target: t, JSON: true})
	}
	// leaves the scenario itself writes (wave 6): a query built from one of them is about something that exists, and a
	// wildcard in it has siblings and deeper namesakes to tell apart
	written := map[string][]Path{}
	if len(scen) > 0 {
		for _, op := range scen[0] {
			for _, t := range targets {
				for _, o := range op.Targets[t] {
					if !o.Del {
						written[t] = append(written[t], o.P)
					}
				}
			}
		}
	}
	for i := 0; i < n; i++ {
		t := targets[g.pick(len(targets))]
		p, _ := g.RandLeafPath(true)
		fromScenario := false
		if w := written[t]; len(w) > 0 && g.chance(1, 2) {
			p = w[g.pick(len(w))]
			fromScenario = true
		}
		q := append(Path{}, p[:1+g.pick(len(p))]...)
		kind := g.pick(6)
		if fromScenario && g.chance(1, 2) {
			// the whole leaf path with one container element replaced by `*`
			q = append(Path{}, p...)
			kind = 1
		}
		switch kind {
		case 0:
			// wildcard key values
			for j := range q {
				if len(q[j].Keys) > 0 {
					ks := append([][2]string{}, q[j].Keys...)
					ks[g.pick(len(ks))][1] = "*"
					q[j] = PElem{Name: q[j].Name, Keys: ks}
				}
			}
		case 1:
			// wildcard element name (not the first)
			if len(q) > 1 {
				j := 1 + g.pick(len(q)-1)
				if len(q[j].Keys) == 0 {
					q[j] = PElem{Name: "*"}
				}
			}
		case 2:
			// list addressed without keys
			for j := range q {
				if len(q[j].Keys) > 0 && j == len(q)-1 {
					q[j] = PElem{Name: q[j].Name}
				}
			}
		}
		cop := ClientOp{Kind: "get", Target: t, Query: q, JSON: g.chance(1, 3)}
		if g.chance(1, 3) {
			// part (or all) of the path travels in the request prefix
			cop.Split = 1 + g.pick(len(q))
			cop.EmptyPath = g.chance(1, 2)
		}
		out = append(out, cop)
	}
	return out
}

func init() {
	Profiles["C03"] = &Profile{
		Property: "C03", Engine: "syssim",
		Rule: "non-trivial: at quiescence at least one target holds leaves and at least one delete of the history removed existing leaves or a leaf was re-created under a previously deleted ancestor; distinct = distinct action-trace hash",
		Gen: func(seed uint64, tier string) *Plan {
			g := NewGen(seed)
			p := &Plan{Property: "C03", Profile: "sequential-gnmi-model", Seed: seed}
			p.Knobs.Targets = g.RandTargets(2)
			maxTx := 6
			if tier == "thorough" {
				maxTx = 10
			}
			if g.chance(1, 3) {
				// long histories of small requests piled onto one sub-tree: nested deletes, re-creation beneath them,
				// unrelated commits in between
				p.Profile = "sequential-gnmi-model+focus"
				p.Knobs.Targets = []string{"t1"}
				g.SetFocus(75)
				p.Scenario = g.Scenario(ScenOpts{MinTx: 5, MaxTx: maxTx + 4, MaxOps: 1 + g.pick(2), PoisonPct: 0, DelPct: 45, RollbackPct: 5, BadRollbackPct: 20,
					AsyncPct: 30, MultiPct: 0, PipelinePct: 25}, p.Knobs.Targets)
				if g.chance(1, 2) {
					// structured instead of random: ladders of ancestor deletes, re-creation, an unrelated commit
					p.Profile = "sequential-gnmi-model+ladder"
					p.Scenario = g.LadderScenario("t1", maxTx+6)
				}
			} else {
				p.Scenario = g.Scenario(ScenOpts{MinTx: 2, MaxTx: maxTx, MaxOps: 4, PoisonPct: 5, DelPct: 40, RollbackPct: 12, BadRollbackPct: 20,
					AsyncPct: 30, MultiPct: 30, PipelinePct: 40}, p.Knobs.Targets)
			}
			p.Probes = g.GenQueries(p.Knobs.Targets, 6, p.Scenario)
			p.Sched = g.RandSched()
			// devices are irrelevant here: connect them lazily so that runs stay short
			p.Knobs.ConnLate = map[string]bool{}
			for _, t := range p.Knobs.Targets {
				p.Knobs.ConnLate[t] = g.chance(1, 2)
			}
			if g.chance(1, 2) {
				p.Knobs.MapSeed = g.R.Uint64() | 1
			}
			if g.chance(1, 4) {
				// connections come and go while Sets are committed: the mastership and configuration controllers write
				// the same Configuration record (terms, synchronisation state) as the commits do
				p.Profile += "+reconnects"
				p.Knobs.SharedChannel = g.chance(1, 2)
				for _, t := range p.Knobs.Targets {
					p.Knobs.ConnLate[t] = false
				}
				for i := 0; i <= g.pick(3); i++ {
					t := p.Knobs.Targets[g.pick(len(p.Knobs.Targets))]
					k := []string{"conn-replace", "conn-down", "dev-restart"}[g.pick(3)]
					f := Fault{Kind: k, Target: t}
					if g.chance(1, 2) {
						f.On, f.N = "effect", 10+g.pick(150)
					} else {
						f.On, f.N = "during-devset", 1+g.pick(6)
					}
					p.Faults = append(p.Faults, f)
				}
			}
			return p
		},
		Arm: func(s *Sys) { s.Mon = append(s.Mon, &c03{s: s}) },
		NonTrivial: func(s *Sys) bool {
			return s.K.Probes["c03-delete-hit"] > 0 || s.K.Probes["c03-recreated-under-deleted"] > 0
		},
	}
}

// RunProbes issues the plan's Get probes as client calls and waits for them.
func (s *Sys) RunProbes(ops []ClientOp) []*Call {
	var calls []*Call
	for _, op := range ops {
		calls = append(calls, s.AddProbe(op))
	}
	s.K.Trace = append(s.K.Trace, "probes")
	if !s.Settle(20000) {
		s.Report("HARNESS", "probe", "no-settle", "Get probes did not settle")
	}
	return calls
}

// CompareGet compares one Get answer with the expected tree; returns a description of the mismatch or "".
func CompareGet(c *Call, cfg Tree) (string, string) {
	op := c.Op
	if !c.Returned {
		return "get-blocked", fmt.Sprintf("Get %s %s did not return", op.Target, op.Query)
	}
	want := cfg.Sub(op.Query)
	if c.Err != nil {
		// a Get on a target that has no configuration record yet is answered NotFound; nothing to compare if nothing is expected
		if len(cfg) == 0 {
			return "", ""
		}
		return "get-error", fmt.Sprintf("Get %s %s failed: %v (expected %d leaves)", op.Target, op.Query, c.Err, len(want))
	}
	var got Tree
	var err error
	if op.JSON {
		got, err = TreeFromJSONGet(c.GetResp)
		want = WithImpliedKeys(want)
	} else {
		got, err = TreeFromProtoGet(c.GetResp)
	}
	enc := "proto"
	if op.JSON {
		enc = "json"
	}
	if err != nil {
		return enc + "-undecodable", fmt.Sprintf("Get %s %s (%s): %v", op.Target, op.Query, enc, err)
	}
	if !got.Equal(want) {
		shape := enc + "-mismatch"
		var extra, missing []Leaf
		for k, l := range got {
			if _, ok := want[k]; !ok {
				extra = append(extra, l)
			}
		}
		for k, l := range want {
			if _, ok := got[k]; !ok {
				missing = append(missing, l)
			}
		}
		switch {
		case len(extra) > 0 && len(missing) == 0:
			shape += "-extra"
			// diagnosis: every extra leaf lies outside the query at element boundaries but shares its text as a prefix
			qt := PluginPathText(op.Query)
			all := len(op.Query) > 0
			for _, l := range extra {
				if l.P.HasPrefix(op.Query) || !strings.HasPrefix(PluginPathText(l.P), qt) {
					all = false
				}
			}
			if all {
				shape += "-textual-prefix-sibling"
			}
		case len(missing) > 0 && len(extra) == 0:
			shape += "-missing"
		}
		if len(op.Query) > 0 {
			shape += "-subpath"
		} else {
			shape += "-whole"
		}
		return shape, fmt.Sprintf("Get %s %s (%s) differs from the sequential model (- expected only, + returned only): %s", op.Target, op.Query, enc, want.Diff(got))
	}
	return "", ""
}

func (m *c03) AtQuiescence() {
	s := m.s
	mod := s.ObservedFold()
	// reach probes
	seenDeleted := map[string]map[string]bool{}
	for i := uint64(1); i <= s.Rec.MaxTx; i++ {
		tx := mod.Txs[i]
		if tx == nil || !tx.Commit || tx.Kind != "change" {
			continue
		}
		for _, t := range tx.Targets {
			if seenDeleted[t] == nil {
				seenDeleted[t] = map[string]bool{}
			}
			for _, o := range tx.Ops[t] {
				if o.Del {
					if len(tx.Before[t].Sub(o.P)) > 0 {
						s.K.Probe("c03-delete-hit")
					}
					seenDeleted[t][o.P.K()] = true
				}
			}
			for _, o := range tx.Ops[t] {
				if !o.Del {
					for n := 1; n < len(o.P); n++ {
						if seenDeleted[t][o.P[:n].K()] {
							s.K.Probe("c03-recreated-under-deleted")
						}
					}
				}
			}
		}
	}
	calls := s.RunProbes(s.Plan.Probes)
	// whole-tree answers first: a wrong stored state is diagnosed by cause, and sub-path answers of that target are then
	// not reported separately (they repeat the same difference)
	wrong := map[string]bool{}
	for _, c := range calls {
		cfg := mod.Cfg[c.Op.Target]
		if cfg == nil {
			cfg = Tree{}
		}
		if len(c.Op.Query) != 0 {
			continue
		}
		if shape, msg := CompareGet(c, cfg); shape != "" {
			wrong[c.Op.Target] = true
			if c.Returned && c.Err == nil {
				var got Tree
				if c.Op.JSON {
					got, _ = TreeFromJSONGet(c.GetResp)
				} else {
					got, _ = TreeFromProtoGet(c.GetResp)
				}
				if cause := m.diagnose(mod, c.Op.Target, cfg, got); cause != "" {
					shape = "stored-state:" + cause
				}
			}
			s.Report("C03", "get-vs-model", shape, msg)
		}
	}
	for _, c := range calls {
		cfg := mod.Cfg[c.Op.Target]
		if cfg == nil {
			cfg = Tree{}
		}
		if len(c.Op.Query) == 0 || wrong[c.Op.Target] {
			continue
		}
		if shape, msg := CompareGet(c, cfg); shape != "" {
			s.Report("C03", "get-vs-model", shape, msg)
		}
	}
}

// diagnose names the cause of a wrong stored state when it is one of the recognised ones (used as signature shape).
func (m *c03) diagnose(mod *Model, target string, want, got Tree) string {
	if got == nil {
		return ""
	}
	var missing, extra []Leaf
	for k, l := range want {
		if _, ok := got[k]; !ok {
			missing = append(missing, l)
		}
	}
	for k, l := range got {
		if _, ok := want[k]; !ok {
			extra = append(extra, l)
		}
	}
	if len(missing) == 0 && len(extra) == 0 {
		return ""
	}
	causes := map[string]bool{}
	for _, l := range missing {
		c := "missing-other"
		lt := PluginPathText(l.P)
		for i := uint64(1); i <= m.s.Rec.MaxTx; i++ {
			tx := mod.Txs[i]
			if tx == nil || !tx.Commit || tx.Kind != "change" {
				continue
			}
			sets := false
			for _, o := range tx.Ops[target] {
				if !o.Del && o.P.K() == l.P.K() && o.V == l.V {
					sets = true
				}
			}
			for _, o := range tx.Ops[target] {
				if !o.Del {
					continue
				}
				if sets && l.P.HasPrefix(o.P) {
					c = "update-lost-to-ancestor-delete-in-same-request"
				} else if !l.P.HasPrefix(o.P) && strings.HasPrefix(lt, PluginPathText(o.P)) && c == "missing-other" {
					c = "delete-hit-textual-prefix-sibling"
				}
			}
		}
		causes[c] = true
	}
	for range extra {
		causes["extra-other"] = true
	}
	if len(causes) == 1 {
		for c := range causes {
			return c
		}
	}
	return "mixed"
}
