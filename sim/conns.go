package sim

// Stub connection manager (gnmi.ConnManager): connections come and go by scheduled fault actions; Conn objects are the
// repository's own conn/client built over a bufconn ClientConn to the fake device.

import (
	"context"
	"fmt"
	"sort"
	"sync"

	topoapi "github.com/onosproject/onos-api/go/onos/topo"
	sb "github.com/onosproject/onos-config/pkg/southbound/gnmi"
	"github.com/onosproject/onos-lib-go/pkg/errors"
	"google.golang.org/grpc"
)

type cwatch struct {
	fifo []sb.Conn
	pump chan sb.Conn
	name string
	dead bool
}

type connEntry struct {
	conn sb.Conn
	cc   *grpc.ClientConn
	id   *string
	dev  *Device
}

// Conns is one incarnation's connection manager.
type Conns struct {
	k      *Kernel
	inc    context.Context
	mu     sync.Mutex
	conns  map[sb.ConnID]*connEntry
	byTgt  map[topoapi.ID]*connEntry
	ws     []*cwatch
	all    []*grpc.ClientConn
	Intent map[topoapi.ID]bool
}

// NewConns creates the stub manager for an incarnation.
func NewConns(k *Kernel, inc context.Context) *Conns {
	c := &Conns{k: k, inc: inc, conns: map[sb.ConnID]*connEntry{}, byTgt: map[topoapi.ID]*connEntry{}, Intent: map[topoapi.ID]bool{}}
	k.AddSource("conn-events", c.actions)
	return c
}

// Up establishes a (new) connection to the device; an existing one to the same target is replaced.
func (c *Conns) Up(d *Device) sb.Conn {
	if c.inc.Err() != nil {
		return nil
	}
	id := new(string)
	cc := d.Dial(id)
	conn, err := sb.NewConnForVerif(topoapi.ID(d.Target), cc)
	if err != nil {
		panic(err)
	}
	*id = string(conn.ID())
	c.k.Name("conn", *id)
	c.mu.Lock()
	e := &connEntry{conn: conn, cc: cc, id: id, dev: d}
	c.all = append(c.all, cc)
	old, replaced := c.byTgt[conn.TargetID()]
	if d.Shared {
		// the channel is ready (again); a replacement is a flap of the one channel: RPCs in flight fail, the old Conn
		// object leaves the manager but keeps working for whoever still holds it
		d.LinkUp(replaced)
	}
	if replaced {
		delete(c.conns, old.conn.ID())
		if !d.Shared {
			_ = old.cc.Close()
		}
		for _, w := range c.ws {
			if !w.dead {
				w.fifo = append(w.fifo, old.conn)
			}
		}
	}
	c.conns[conn.ID()] = e
	c.byTgt[conn.TargetID()] = e
	for _, w := range c.ws {
		if !w.dead {
			w.fifo = append(w.fifo, conn)
		}
	}
	c.mu.Unlock()
	return conn
}

// Down drops the connection to a target (in-flight RPCs fail Unavailable).
func (c *Conns) Down(target string) bool {
	c.mu.Lock()
	e, ok := c.byTgt[topoapi.ID(target)]
	if ok {
		delete(c.byTgt, topoapi.ID(target))
		delete(c.conns, e.conn.ID())
		for _, w := range c.ws {
			if !w.dead {
				w.fifo = append(w.fifo, e.conn)
			}
		}
	}
	c.mu.Unlock()
	if ok {
		if e.dev != nil && e.dev.Shared {
			e.dev.LinkDown()
		} else {
			_ = e.cc.Close()
		}
	}
	return ok
}

// IsUp reports whether a connection to target exists.
func (c *Conns) IsUp(target string) bool {
	c.mu.Lock()
	defer c.mu.Unlock()
	_, ok := c.byTgt[topoapi.ID(target)]
	return ok
}

// Current returns the current connection id for a target ("" if none).
func (c *Conns) Current(target string) string {
	c.mu.Lock()
	defer c.mu.Unlock()
	if e, ok := c.byTgt[topoapi.ID(target)]; ok {
		return string(e.conn.ID())
	}
	return ""
}

// Close closes every client connection (crash / teardown).
func (c *Conns) Close() {
	c.mu.Lock()
	defer c.mu.Unlock()
	for _, cc := range c.all {
		_ = cc.Close()
	}
	for _, w := range c.ws {
		w.dead = true
	}
}

func (c *Conns) Get(ctx context.Context, id sb.ConnID) (sb.Conn, bool) {
	c.mu.Lock()
	defer c.mu.Unlock()
	x, ok := c.conns[id]
	if !ok {
		return nil, false
	}
	return x.conn, true
}

func (c *Conns) GetByTarget(ctx context.Context, t topoapi.ID) (sb.Client, error) {
	c.mu.Lock()
	defer c.mu.Unlock()
	if x, ok := c.byTgt[t]; ok {
		return x.conn, nil
	}
	return nil, errors.NewNotFound("gnmi client for target %s not found", t)
}

func (c *Conns) Connect(ctx context.Context, t *topoapi.Object) error {
	c.mu.Lock()
	defer c.mu.Unlock()
	if c.Intent[t.ID] {
		return errors.NewAlreadyExists("target '%s' already exists", t.ID)
	}
	c.Intent[t.ID] = true
	return nil
}

func (c *Conns) Disconnect(ctx context.Context, t topoapi.ID) error {
	c.mu.Lock()
	defer c.mu.Unlock()
	if !c.Intent[t] {
		return errors.NewNotFound("target '%s' not found", t)
	}
	delete(c.Intent, t)
	return nil
}

func (c *Conns) Watch(ctx context.Context, ch chan<- sb.Conn) error {
	w := &cwatch{pump: make(chan sb.Conn, 1<<12)}
	c.mu.Lock()
	w.name = fmt.Sprintf("conns/%d", len(c.ws)+1)
	ids := make([]string, 0, len(c.conns))
	for id := range c.conns {
		ids = append(ids, string(id))
	}
	sort.Slice(ids, func(i, j int) bool { return c.k.Name("conn", ids[i]) < c.k.Name("conn", ids[j]) })
	for _, id := range ids {
		w.fifo = append(w.fifo, c.conns[sb.ConnID(id)].conn)
	}
	c.ws = append(c.ws, w)
	c.mu.Unlock()
	go func() {
		defer func() { c.mu.Lock(); w.dead = true; c.mu.Unlock() }()
		for {
			select {
			case x := <-w.pump:
				select {
				case ch <- x:
				case <-ctx.Done():
					return
				case <-c.inc.Done():
					return
				}
			case <-ctx.Done():
				return
			case <-c.inc.Done():
				return
			}
		}
	}()
	return nil
}

func (c *Conns) actions() []Action {
	c.mu.Lock()
	defer c.mu.Unlock()
	var acts []Action
	for _, w := range c.ws {
		w := w
		if len(w.fifo) > 0 && !w.dead {
			acts = append(acts, Action{Key: "ev/" + w.name, Fire: func() {
				c.mu.Lock()
				if w.dead || len(w.fifo) == 0 {
					c.mu.Unlock()
					return
				}
				x := w.fifo[0]
				w.fifo = w.fifo[1:]
				c.mu.Unlock()
				select {
				case w.pump <- x:
				default:
				}
			}})
		}
	}
	return acts
}

// PendingEvents reports undelivered events.
func (c *Conns) PendingEvents() int {
	c.mu.Lock()
	defer c.mu.Unlock()
	n := 0
	for _, w := range c.ws {
		if !w.dead {
			n += len(w.fifo)
		}
	}
	return n
}
