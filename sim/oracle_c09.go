package sim

// C09 — controllers never strand a transaction that could make progress.

import (
	"fmt"
	"sort"
	"strings"

	configapi "github.com/onosproject/onos-api/go/onos/config/v2"
	"github.com/onosproject/onos-lib-go/pkg/controller"
)

type c09 struct {
	s *Sys
}

func (m *c09) Name() string { return "C09" }

func init() {
	Profiles["C09"] = &Profile{
		Property: "C09", Engine: "syssim",
		Rule: "non-trivial: at least two transactions were in flight (not final) at the same step on one target chain, or a transaction failed validation while a successor was pending; distinct = distinct action-trace hash",
		Gen: func(seed uint64, tier string) *Plan {
			g := NewGen(seed)
			p := &Plan{Property: "C09", Profile: "adversarial-delivery", Seed: seed}
			p.Knobs.Targets = g.RandTargets(3)
			maxTx := 6
			if tier == "thorough" {
				maxTx = 10
			}
			p.Scenario = g.Scenario(ScenOpts{MinTx: 2, MaxTx: maxTx, MaxOps: 3, PoisonPct: 25, DelPct: 30, RollbackPct: 15, BadRollbackPct: 40,
				AsyncPct: 40, SerialPct: 15, MultiPct: 50, PipelinePct: 70}, p.Knobs.Targets)
			p.Sched = g.RandSched()
			p.Knobs.ConnLate = map[string]bool{}
			for _, t := range p.Knobs.Targets {
				if g.chance(1, 3) {
					p.Knobs.ConnLate[t] = true
				}
			}
			if g.chance(1, 2) {
				p.Knobs.MapSeed = g.R.Uint64() | 1
			}
			if g.chance(1, 5) {
				p.Faults = append(p.Faults, Fault{Kind: "stall", On: "step", N: 20 + g.pick(400)})
			}
			if g.chance(1, 4) {
				// a store write that fails without effect, or takes effect while its acknowledgement is lost
				p.Profile = "adversarial-delivery+op-faults"
				for i := 0; i <= g.pick(2); i++ {
					p.Faults = append(p.Faults, Fault{Kind: []string{"op-unavail", "op-acklost"}[g.pick(2)], On: "write", N: 5 + g.pick(150)})
				}
			}
			if g.chance(1, 5) {
				// acknowledgements of store writes are scheduled apart from their effect: watchers may see a write before
				// its writer does
				p.Profile += "+late-ack"
				p.Knobs.LateAck = [][]string{{""}, {"transactions/"}, {"proposals/"}, {"configurations"}}[g.pick(4)]
			}
			g.swarmExtras(p, true, true)
			return p
		},
		Arm: func(s *Sys) {
			m := &c09{s: s}
			s.Mon = append(s.Mon, m, &overlapProbe{s: s})
		},
		NonTrivial: func(s *Sys) bool {
			return s.K.Probes["overlap-on-target"] > 0 || s.K.Probes["failed-with-successor"] > 0
		},
	}
}

// overlapProbe counts runs in which transactions genuinely overlapped (shared by several profiles).
type overlapProbe struct {
	s    *Sys
	done bool
}

func (o *overlapProbe) Name() string { return "overlap-probe" }
func (o *overlapProbe) OnTx(old, new *configapi.Transaction, w WriteRec) {
	r := o.s.Rec
	// count non-final transactions per target
	per := map[string]int{}
	for i := uint64(1); i <= r.MaxTx; i++ {
		tx := r.Txs[i]
		if tx == nil || TxFinal(tx) {
			continue
		}
		for _, pid := range tx.Status.Proposals {
			s := string(pid)
			per[s[:strings.LastIndex(s, "-")]]++
		}
	}
	for _, n := range per {
		if n >= 2 {
			o.s.K.Probe("overlap-on-target")
			break
		}
	}
	if new.Status.State == configapi.TransactionStatus_FAILED && (old == nil || old.Status.State != configapi.TransactionStatus_FAILED) {
		if uint64(new.Index) < r.MaxTx {
			o.s.K.Probe("failed-with-successor")
		}
	}
}

// StuckReport describes the non-final transactions.
func (s *Sys) StuckReport() (string, string) {
	r := s.Rec
	var parts []string
	shape := ""
	for i := uint64(1); i <= r.MaxTx; i++ {
		tx := r.Txs[i]
		if tx == nil || TxFinal(tx) {
			continue
		}
		d := fmt.Sprintf("tx%d %s", i, TxPhase(tx))
		for _, pid := range tx.Status.Proposals {
			if p := r.Props[string(pid)]; p != nil {
				d += fmt.Sprintf(" [%s %s]", pid, PropPhase(p))
			}
		}
		parts = append(parts, d)
		if shape == "" {
			shape = stuckShape(r, tx)
		}
	}
	return strings.Join(parts, "; "), shape
}

// genericShape switches the recognition of the known serializable-predecessor wake-up defect off (see AtQuiescence).
var genericShape bool

// stuckShape classifies where the first stuck transaction sits (used as violation signature shape).
func stuckShape(r *Recorder, tx *configapi.Transaction) string {
	ph := TxPhase(tx)
	// Known cause (known-findings.txt): a transaction that waits for a SERIALIZABLE predecessor on a shared target to be
	// validated / committed / applied is not re-examined when the predecessor gets there.
	waitsFor := configapi.TransactionStatus_PENDING
	switch {
	case tx.Status.Phases.Apply != nil, tx.Status.Phases.Abort != nil:
	case tx.Status.Phases.Commit != nil && tx.Status.Phases.Commit.State == configapi.TransactionCommitPhase_COMMITTED:
		waitsFor = configapi.TransactionStatus_APPLIED
	case tx.Status.Phases.Commit != nil:
	case tx.Status.Phases.Validate != nil && tx.Status.Phases.Validate.State == configapi.TransactionValidatePhase_VALIDATED:
		waitsFor = configapi.TransactionStatus_COMMITTED
	case tx.Status.Phases.Validate != nil:
	case tx.Status.Phases.Initialize != nil && tx.Status.Phases.Initialize.State == configapi.TransactionInitializePhase_INITIALIZED:
		waitsFor = configapi.TransactionStatus_VALIDATED
	}
	if waitsFor != configapi.TransactionStatus_PENDING && !genericShape {
		for _, pid := range tx.Status.Proposals {
			if p := r.Props[string(pid)]; p != nil && p.Status.PrevIndex != 0 {
				if prev := r.Txs[uint64(p.Status.PrevIndex)]; prev != nil && prev.Isolation == configapi.TransactionStrategy_SERIALIZABLE && prev.Status.State >= waitsFor {
					return "behind-serializable-predecessor"
				}
			}
		}
	}
	var pp []string
	for _, pid := range tx.Status.Proposals {
		if p := r.Props[string(pid)]; p != nil {
			x := PropPhase(p)
			if i := strings.Index(x, "("); i >= 0 {
				x = x[:i]
			}
			// note whether the predecessor on this target was aborted
			pred := ""
			if p.Status.PrevIndex != 0 {
				if q := r.Props[fmt.Sprintf("%s-%d", p.TargetID, p.Status.PrevIndex)]; q != nil && q.Status.Phases.Abort != nil {
					pred = "+pred-" + strings.ToLower(q.Status.Phases.Abort.State.String())
				}
			}
			pp = append(pp, x+pred)
		}
	}
	sort.Strings(pp)
	pp = uniq(pp)
	return strings.ToLower(ph + "|" + strings.Join(pp, ","))
}

func uniq(in []string) []string {
	var out []string
	for i, s := range in {
		if i == 0 || s != in[i-1] {
			out = append(out, s)
		}
	}
	return out
}

func (m *c09) OnCapHit() {
	s := m.s
	keys := s.K.EnabledKeys()
	if len(keys) > 8 {
		keys = keys[:8]
	}
	stuck, shape := s.StuckReport()
	s.Report("C09", "bounded-liveness", "livelock:"+shape, fmt.Sprintf("step cap %d hit after faults stopped; still enabled: %v; non-final: %s", s.K.StepN, keys, stuck))
}

func (m *c09) AtQuiescence() {
	s := m.s
	// (b) progress: every logged transaction is final
	if stuck, shape := s.StuckReport(); stuck != "" {
		// Stranded (nobody looks at a record that could move: a lost wake-up) or blocked (it does not move even when
		// looked at)? Every record is handed to every controller again, repeatedly while that makes progress.
		final := false
		for round := 0; round < 4; round++ {
			w0 := s.RT.Writes
			if !m.reexamine() {
				break
			}
			if st, _ := s.StuckReport(); st == "" {
				final = true
				break
			}
			if s.RT.Writes == w0 {
				break
			}
		}
		if final {
			s.Report("C09", "progress", "stranded:"+shape, "quiescent (no pending work anywhere, every target connected) but not final (final once every record was re-examined: a lost wake-up): "+stuck)
		} else {
			genericShape = true
			stuck2, shape2 := s.StuckReport()
			genericShape = false
			s.Report("C09", "progress", "blocked:"+shape2, "quiescent, every target connected, and not final even after every record was handed to every controller again: "+stuck2+" (before the re-examination: "+stuck+")")
		}
		return
	}
	// (a) fixed point: re-examining every record changes nothing
	m.fixedPoint()
}

// reexamine enqueues every record into every controller and settles; false if it did not settle.
func (m *c09) reexamine() bool {
	s := m.s
	r := s.Rec
	for _, c := range s.Inc.ctls {
		switch c.Name {
		case "transaction":
			for i := uint64(1); i <= r.MaxTx; i++ {
				c.Enqueue(controller.NewID(configapi.Index(i)))
			}
		case "proposal":
			ks := make([]string, 0, len(r.Props))
			for k := range r.Props {
				ks = append(ks, k)
			}
			sort.Strings(ks)
			for _, k := range ks {
				c.Enqueue(controller.NewID(configapi.ProposalID(k)))
			}
		case "configuration", "mastership":
			ks := make([]string, 0, len(r.Cfgs))
			for k := range r.Cfgs {
				ks = append(ks, k)
			}
			sort.Strings(ks)
			for _, k := range ks {
				c.Enqueue(controller.NewID(configapi.ConfigurationID(k)))
			}
		}
	}
	s.K.Trace = append(s.K.Trace, "fixed-point-pass")
	return s.Settle(20000)
}

func (m *c09) fixedPoint() {
	s := m.s
	writes0, topo0 := s.RT.Writes, s.Topo.Writes
	sets0 := 0
	for _, d := range s.Devs {
		sets0 += d.NSets
	}
	if !m.reexamine() {
		s.Report("C09", "fixed-point", "no-settle", "re-examination of all records did not settle within 20000 steps")
		return
	}
	sets1 := 0
	for _, d := range s.Devs {
		sets1 += d.NSets
	}
	if s.RT.Writes != writes0 || s.Topo.Writes != topo0 || sets1 != sets0 {
		log := s.Eff.Log
		if len(log) > 6 {
			log = log[len(log)-6:]
		}
		s.Report("C09", "fixed-point", "writes-after-quiescence",
			fmt.Sprintf("re-examining all records at quiescence caused %d Atomix writes, %d topo writes, %d device Sets; last effects: %v",
				s.RT.Writes-writes0, s.Topo.Writes-topo0, sets1-sets0, log))
	}
}
