package sim

// Synthetic YANG-like schema, fake model plugin (admin.ModelPluginServiceClient) plugged into the repository's real
// plugin registry through its NewClientFn seam, and an independent JSON flattener.

import (
	"bytes"
	"context"
	"encoding/json"
	"fmt"
	"sort"
	"strconv"
	"strings"
	"sync"

	adminapi "github.com/onosproject/onos-api/go/onos/config/admin"
	configapi "github.com/onosproject/onos-api/go/onos/config/v2"
	"github.com/openconfig/gnmi/proto/gnmi"
	"google.golang.org/grpc"
	"google.golang.org/grpc/codes"
	"google.golang.org/grpc/metadata"
	"google.golang.org/grpc/status"
)

// SNode is a schema node.
type SNode struct {
	Name     string
	Kind     int // 0 container, 1 list, 2 leaf
	Keys     []string
	Type     string // leaf: "s", "u8", "u16", "u32", "u64", "i32", "b"
	Children []*SNode
}

func cont(name string, ch ...*SNode) *SNode { return &SNode{Name: name, Kind: 0, Children: ch} }
func list(name string, keys []string, ch ...*SNode) *SNode {
	return &SNode{Name: name, Kind: 1, Keys: keys, Children: ch}
}
func leaf(name, typ string) *SNode { return &SNode{Name: name, Kind: 2, Type: typ} }

// Schema is the synthetic model: containers three deep, single- and two-key lists, a nested list, sibling names that are
// textual prefixes of each other (leaf1a/leaf1ab, cont2a/cont2ab, list2a/list2ab), leaf names that recur at two depths
// beneath plain containers (leaf2b, leaf1a), several leaf types.
var Schema = cont("",
	cont("cont1a",
		leaf("leaf1a", "s"),
		leaf("leaf1ab", "s"),
		cont("cont2a",
			leaf("leaf2a", "u8"),
			leaf("leaf2b", "s"),
			cont("cont3a", leaf("leaf3a", "s"), leaf("leaf3b", "u32"), leaf("leaf2b", "s")), // leaf2b recurs one level down (wave 6)
		),
		cont("cont2ab", leaf("leaf2c", "s"), leaf("leaf1a", "s")), // so does leaf1a: a `*` element must not span levels
		list("list2a", []string{"name"},
			leaf("name", "s"),
			leaf("tx-power", "u16"),
			leaf("descr", "s"),
			list("list3", []string{"id"}, leaf("id", "s"), leaf("v3", "s")),
		),
		list("list2ab", []string{"name"}, leaf("name", "s"), leaf("val", "s")),
		list("list5", []string{"key1", "key2"}, leaf("key1", "s"), leaf("key2", "u8"), leaf("leaf5a", "s"), leaf("leaf5b", "b")),
	),
	cont("cont1b", leaf("leafb", "b"), leaf("big", "s"), leaf("count", "u64"), leaf("signed", "i32")),
	leaf("leaftop", "s"),
)

// SchemaLeaf describes one leaf of the schema with its model path.
type SchemaLeaf struct {
	Elems []*SNode // from top to leaf (excluding root)
	Leaf  *SNode
	IsKey bool
}

// SchemaLeaves enumerates all leaves.
func SchemaLeaves() []SchemaLeaf {
	var out []SchemaLeaf
	var walk func(n *SNode, stack []*SNode)
	walk = func(n *SNode, stack []*SNode) {
		for _, c := range n.Children {
			st := append(append([]*SNode{}, stack...), c)
			if c.Kind == 2 {
				isKey := false
				if n.Kind == 1 {
					for _, k := range n.Keys {
						if k == c.Name {
							isKey = true
						}
					}
				}
				out = append(out, SchemaLeaf{Elems: st, Leaf: c, IsKey: isKey})
			} else {
				walk(c, st)
			}
		}
	}
	walk(Schema, nil)
	return out
}

func valueTypeOf(t string) (configapi.ValueType, []uint64) {
	switch t {
	case "s":
		return configapi.ValueType_STRING, nil
	case "b":
		return configapi.ValueType_BOOL, nil
	case "u8":
		return configapi.ValueType_UINT, []uint64{8}
	case "u16":
		return configapi.ValueType_UINT, []uint64{16}
	case "u32":
		return configapi.ValueType_UINT, []uint64{32}
	case "u64":
		return configapi.ValueType_UINT, []uint64{64}
	case "i32":
		return configapi.ValueType_INT, []uint64{32}
	}
	return configapi.ValueType_STRING, nil
}

// modelPathText renders the model path the way model plugins publish it (lists as name[k1=*][k2=*], keys sorted).
func modelPathText(elems []*SNode) string {
	var sb strings.Builder
	for _, e := range elems {
		sb.WriteString("/" + e.Name)
		if e.Kind == 1 {
			ks := append([]string{}, e.Keys...)
			sort.Strings(ks)
			for _, k := range ks {
				sb.WriteString("[" + k + "=*]")
			}
		}
	}
	return sb.String()
}

// ModelInfo builds the ModelInfoResponse of the synthetic model.
func ModelInfo(name, version string) *adminapi.ModelInfoResponse {
	mi := &adminapi.ModelInfo{Name: name, Version: version,
		ModelData: []*gnmi.ModelData{{Name: "synthetic", Organization: "verif", Version: "2026-01-01"}}}
	for _, l := range SchemaLeaves() {
		vt, opts := valueTypeOf(l.Leaf.Type)
		mi.ReadWritePath = append(mi.ReadWritePath, &adminapi.ReadWritePath{
			Path: modelPathText(l.Elems), ValueType: vt, TypeOpts: opts, IsAKey: l.IsKey, AttrName: l.Leaf.Name})
	}
	return &adminapi.ModelInfoResponse{ModelInfo: mi}
}

// PluginDoc is one document the fake plugin was asked to validate.
type PluginDoc struct {
	Step   int
	Task   string
	Bytes  []byte
	Chunks []int
	Valid  bool
}

// Plugin is the fake model plugin service client.
type Plugin struct {
	k       *Kernel
	Name    string
	Version string
	mu      sync.Mutex
	Docs    []*PluginDoc
	inc     func() context.Context
	// Poison is the token this model rejects (default PoisonValue); sink, when set, receives this plugin's documents
	// (the second model logs into the first one's list, so that the oracles see one sequence)
	Poison string
	sink   *Plugin
	// Calls counts validations (at execution, over both models: counted on the sink); ErrAt marks ordinals whose call
	// fails with a transport error (Unavailable) instead of a verdict; ErrTx collects the transactions hit
	Calls int
	ErrAt map[int]bool
	ErrTx map[uint64]bool
}

// NewPlugin creates a fake plugin client.
func NewPlugin(k *Kernel, name, version string) *Plugin {
	return &Plugin{k: k, Name: name, Version: version}
}

func (p *Plugin) GetModelInfo(ctx context.Context, in *adminapi.ModelInfoRequest, opts ...grpc.CallOption) (*adminapi.ModelInfoResponse, error) {
	return ModelInfo(p.Name, p.Version), nil
}

func (p *Plugin) verdict(doc []byte) (bool, string) {
	tok := p.Poison
	if tok == "" {
		tok = PoisonValue
	}
	if bytes.Contains(doc, []byte(tok)) {
		return false, "poison value present"
	}
	return true, ""
}

func (p *Plugin) ValidateConfig(ctx context.Context, in *adminapi.ValidateConfigRequest, opts ...grpc.CallOption) (*adminapi.ValidateConfigResponse, error) {
	st := &valStream{p: p, ctx: ctx}
	_ = st.Send(&adminapi.ValidateConfigRequestChunk{Json: in.Json})
	return st.CloseAndRecv()
}

// incPlugin is the client one incarnation holds: calls of a stopped process go nowhere. (The reconcilers derive their
// contexts from context.Background(), so a goroutine of a dead incarnation that wakes up late would otherwise still have a
// document validated - and recorded under whatever task happens to be active then.)
type incPlugin struct {
	*Plugin
	inc context.Context
}

func (p *incPlugin) ValidateConfig(ctx context.Context, in *adminapi.ValidateConfigRequest, opts ...grpc.CallOption) (*adminapi.ValidateConfigResponse, error) {
	st := &valStream{p: p.Plugin, ctx: ctx, inc: p.inc}
	_ = st.Send(&adminapi.ValidateConfigRequestChunk{Json: in.Json})
	return st.CloseAndRecv()
}

func (p *incPlugin) ValidateConfigChunked(ctx context.Context, opts ...grpc.CallOption) (adminapi.ModelPluginService_ValidateConfigChunkedClient, error) {
	return &valStream{p: p.Plugin, ctx: ctx, inc: p.inc}, nil
}

type valStream struct {
	p      *Plugin
	inc    context.Context
	ctx    context.Context
	buf    []byte
	chunks []int
}

func (s *valStream) Send(c *adminapi.ValidateConfigRequestChunk) error {
	s.buf = append(s.buf, c.Json...)
	s.chunks = append(s.chunks, len(c.Json))
	return nil
}

func (s *valStream) CloseAndRecv() (*adminapi.ValidateConfigResponse, error) {
	var resp *adminapi.ValidateConfigResponse
	var callErr error
	ok := s.p.k.Park("val/"+s.p.Name, func() {
		valid, msg := s.p.verdict(s.buf)
		dst := s.p
		if dst.sink != nil {
			dst = dst.sink
		}
		dst.Calls++
		if dst.ErrAt[dst.Calls] {
			// the plugin cannot be reached / its answer is lost: no verdict at all
			delete(dst.ErrAt, dst.Calls)
			s.p.k.Stat("fault/plugin-unavailable")
			if _, idx, ok := taskProposal(s.p.k.Active); ok {
				if dst.ErrTx == nil {
					dst.ErrTx = map[uint64]bool{}
				}
				dst.ErrTx[idx] = true
			}
			dst.mu.Lock()
			dst.Docs = append(dst.Docs, &PluginDoc{Step: s.p.k.StepN, Task: s.p.k.Active, Bytes: s.buf, Chunks: s.chunks, Valid: false})
			dst.mu.Unlock()
			callErr = status.Error(codes.Unavailable, "injected: model plugin unavailable")
			return
		}
		dst.mu.Lock()
		dst.Docs = append(dst.Docs, &PluginDoc{Step: s.p.k.StepN, Task: s.p.k.Active, Bytes: s.buf, Chunks: s.chunks, Valid: valid})
		dst.mu.Unlock()
		resp = &adminapi.ValidateConfigResponse{Valid: valid, Message: msg}
	}, s.ctx, s.inc)
	if !ok {
		if s.ctx.Err() != nil {
			return nil, s.ctx.Err()
		}
		return nil, context.Canceled
	}
	if callErr != nil {
		return nil, callErr
	}
	return resp, nil
}
func (s *valStream) Header() (metadata.MD, error) { return nil, nil }
func (s *valStream) Trailer() metadata.MD         { return nil }
func (s *valStream) CloseSend() error             { return nil }
func (s *valStream) Context() context.Context     { return s.ctx }
func (s *valStream) SendMsg(m any) error          { return nil }
func (s *valStream) RecvMsg(m any) error          { return nil }

func (p *Plugin) ValidateConfigChunked(ctx context.Context, opts ...grpc.CallOption) (adminapi.ModelPluginService_ValidateConfigChunkedClient, error) {
	return &valStream{p: p, ctx: ctx}, nil
}

// GetPathValues converts a JSON document (rooted at pathPrefix) into typed path values, as a real plugin does.
func (p *Plugin) GetPathValues(ctx context.Context, in *adminapi.PathValuesRequest, opts ...grpc.CallOption) (*adminapi.PathValuesResponse, error) {
	t, err := FlattenJSON(in.Json, false)
	if err != nil {
		return nil, err
	}
	resp := &adminapi.PathValuesResponse{}
	keys := make([]string, 0, len(t))
	for k := range t {
		keys = append(keys, k)
	}
	sort.Strings(keys)
	for _, k := range keys {
		l := t[k]
		tv, err := CanonToTypedValue(l.V, leafTypeOf(l.P))
		if err != nil {
			return nil, err
		}
		resp.PathValues = append(resp.PathValues, &configapi.PathValue{Path: PluginPathText(l.P), Value: *tv})
	}
	return resp, nil
}

func (p *Plugin) GetValueSelection(ctx context.Context, in *adminapi.ValueSelectionRequest, opts ...grpc.CallOption) (*adminapi.ValueSelectionResponse, error) {
	return &adminapi.ValueSelectionResponse{}, nil
}

func (p *Plugin) GetValueSelectionChunked(ctx context.Context, opts ...grpc.CallOption) (adminapi.ModelPluginService_GetValueSelectionChunkedClient, error) {
	return nil, fmt.Errorf("not implemented in the fake plugin")
}

// PluginPathText renders a structured path in the textual form model plugins hand back (keys sorted by name).
func PluginPathText(p Path) string {
	var sb strings.Builder
	for _, e := range p {
		sb.WriteString("/" + e.Name)
		for _, kv := range e.Keys {
			sb.WriteString("[" + kv[0] + "=" + kv[1] + "]")
		}
	}
	return sb.String()
}

// CanonToTypedValue converts a canonical model value to the repository's typed value (plugin side of JSON updates).
func CanonToTypedValue(v, typ string) (*configapi.TypedValue, error) {
	body := v[strings.Index(v, ":")+1:]
	switch {
	case typ == "s":
		return configapi.NewTypedValueString(body), nil
	case typ == "b":
		return configapi.NewTypedValueBool(body == "true"), nil
	case strings.HasPrefix(typ, "u"):
		n, err := strconv.ParseUint(body, 10, 64)
		if err != nil {
			return nil, err
		}
		w, _ := strconv.Atoi(typ[1:])
		return configapi.NewTypedValueUint(uint(n), configapi.Width(w)), nil
	case strings.HasPrefix(typ, "i"):
		n, err := strconv.ParseInt(body, 10, 64)
		if err != nil {
			return nil, err
		}
		w, _ := strconv.Atoi(typ[1:])
		return configapi.NewTypedValueInt(int(n), configapi.Width(w)), nil
	}
	return nil, fmt.Errorf("unknown type %s", typ)
}

// findChild finds a schema child by name.
func findChild(n *SNode, name string) *SNode {
	for _, c := range n.Children {
		if c.Name == name {
			return c
		}
	}
	return nil
}

// leafTypeOf returns the schema type of the leaf addressed by p ("" if unknown).
func leafTypeOf(p Path) string {
	n := Schema
	for _, e := range p {
		n = findChild(n, e.Name)
		if n == nil {
			return ""
		}
	}
	if n.Kind != 2 {
		return ""
	}
	return n.Type
}

// canonFromJSON converts a decoded JSON scalar to the canonical value for a schema type.
func canonFromJSON(v any, typ string) (string, error) {
	switch {
	case typ == "s":
		s, ok := v.(string)
		if !ok {
			return "", fmt.Errorf("string leaf holds %T", v)
		}
		return "s:" + s, nil
	case typ == "b":
		switch b := v.(type) {
		case bool:
			return fmt.Sprintf("b:%v", b), nil
		case string:
			return "b:" + b, nil
		}
		return "", fmt.Errorf("bool leaf holds %T", v)
	case strings.HasPrefix(typ, "u"), strings.HasPrefix(typ, "i"):
		pre := typ[:1]
		switch n := v.(type) {
		case json.Number:
			return pre + ":" + n.String(), nil
		case string:
			if _, err := strconv.ParseInt(n, 10, 64); err != nil {
				if _, err := strconv.ParseUint(n, 10, 64); err != nil {
					return "", fmt.Errorf("numeric leaf holds %q", n)
				}
			}
			return pre + ":" + n, nil
		}
		return "", fmt.Errorf("numeric leaf holds %T", v)
	}
	return "", fmt.Errorf("unknown schema type %q", typ)
}

// FlattenJSON flattens a JSON configuration document along the schema into a Tree. With strict=true unknown members are
// an error; key leaves of list entries are always emitted (the document cannot tell whether they were set explicitly).
func FlattenJSON(doc []byte, strict bool) (Tree, error) {
	dec := json.NewDecoder(bytes.NewReader(doc))
	dec.UseNumber()
	var root any
	if err := dec.Decode(&root); err != nil {
		return nil, fmt.Errorf("json: %v", err)
	}
	out := Tree{}
	var walk func(n *SNode, v any, prefix Path) error
	walk = func(n *SNode, v any, prefix Path) error {
		obj, ok := v.(map[string]any)
		if !ok {
			return fmt.Errorf("%s: expected object, got %T", prefix, v)
		}
		names := make([]string, 0, len(obj))
		for k := range obj {
			names = append(names, k)
		}
		sort.Strings(names)
		for _, name := range names {
			cv := obj[name]
			c := findChild(n, name)
			if c == nil {
				if strict {
					return fmt.Errorf("%s: unknown member %q", prefix, name)
				}
				continue
			}
			switch c.Kind {
			case 2:
				val, err := canonFromJSON(cv, c.Type)
				if err != nil {
					return fmt.Errorf("%s/%s: %v", prefix, name, err)
				}
				p := append(append(Path{}, prefix...), PElem{Name: name})
				if _, dup := out[p.K()]; dup {
					return fmt.Errorf("%s: duplicate leaf", p)
				}
				out.Set(p, val)
			case 0:
				if err := walk(c, cv, append(append(Path{}, prefix...), PElem{Name: name})); err != nil {
					return err
				}
			case 1:
				arr, ok := cv.([]any)
				if !ok {
					return fmt.Errorf("%s/%s: expected array, got %T", prefix, name, cv)
				}
				seen := map[string]bool{}
				for _, ev := range arr {
					eo, ok := ev.(map[string]any)
					if !ok {
						return fmt.Errorf("%s/%s: list entry is %T", prefix, name, ev)
					}
					pe := PElem{Name: name}
					for _, kn := range c.Keys {
						kv, ok := eo[kn]
						if !ok {
							return fmt.Errorf("%s/%s: entry without key %s", prefix, name, kn)
						}
						kc := findChild(c, kn)
						cvv, err := canonFromJSON(kv, kc.Type)
						if err != nil {
							return fmt.Errorf("%s/%s key %s: %v", prefix, name, kn, err)
						}
						pe.Keys = append(pe.Keys, [2]string{kn, cvv[strings.Index(cvv, ":")+1:]})
					}
					sort.Slice(pe.Keys, func(i, j int) bool { return pe.Keys[i][0] < pe.Keys[j][0] })
					ep := append(append(Path{}, prefix...), pe)
					if seen[ep.K()] {
						return fmt.Errorf("%s: list entry appears twice (one entry split)", ep)
					}
					seen[ep.K()] = true
					if err := walk(c, ev, ep); err != nil {
						return err
					}
				}
			}
		}
		return nil
	}
	if err := walk(Schema, root, nil); err != nil {
		return nil, err
	}
	return out, nil
}

// WithImpliedKeys returns a copy of t in which every list entry that holds at least one leaf also holds its key leaves.
func WithImpliedKeys(t Tree) Tree {
	out := t.Clone()
	for _, l := range t {
		n := Schema
		for i, e := range l.P {
			n = findChild(n, e.Name)
			if n == nil {
				break
			}
			if n.Kind == 1 {
				for _, kv := range e.Keys {
					kc := findChild(n, kv[0])
					if kc == nil {
						continue
					}
					kp := append(append(Path{}, l.P[:i+1]...), PElem{Name: kv[0]})
					if _, ok := out[kp.K()]; !ok {
						pre := kc.Type[:1]
						out.Set(kp, pre+":"+kv[1])
					}
				}
			}
		}
	}
	return out
}
