package sim

// Device-side properties: C02 (order), C04 (convergence), C10 (mastership / election id / re-sync first), C11 (device
// refusals vs transient errors).

import (
	"fmt"
	"regexp"
	"sort"
	"strconv"
	"strings"
	"testing"

	configapi "github.com/onosproject/onos-api/go/onos/config/v2"
	topoapi "github.com/onosproject/onos-api/go/onos/topo"
	"google.golang.org/grpc/codes"
)

// taskProposal extracts (target, index) from a proposal reconcile task label "rec/proposal/<t>/<t>-<i>~n".
func taskProposal(task string) (string, uint64, bool) {
	if !strings.HasPrefix(task, "rec/proposal/") {
		return "", 0, false
	}
	rest := strings.TrimPrefix(task, "rec/proposal/")
	if i := strings.Index(rest, "~"); i >= 0 {
		rest = rest[:i]
	}
	parts := strings.SplitN(rest, "/", 2)
	if len(parts) != 2 {
		return "", 0, false
	}
	id := parts[1]
	j := strings.LastIndex(id, "-")
	if j < 0 {
		return "", 0, false
	}
	n, err := strconv.ParseUint(id[j+1:], 10, 64)
	if err != nil {
		return "", 0, false
	}
	return id[:j], n, true
}

func isResyncTask(task string) bool { return strings.HasPrefix(task, "rec/configuration/") }

// chain returns the indexes of the proposals of a target in log order.
func (r *Recorder) chain(target string) []uint64 {
	var out []uint64
	for id, p := range r.Props {
		if string(p.TargetID) == target && propTarget(id) == target {
			out = append(out, uint64(p.TransactionIndex))
		}
	}
	sort.Slice(out, func(i, j int) bool { return out[i] < out[j] })
	return out
}

func propApplyDone(p *configapi.Proposal) bool {
	if p == nil {
		return false
	}
	ph := p.Status.Phases
	if ph.Apply != nil && ph.Apply.State != configapi.ProposalApplyPhase_APPLYING {
		return true
	}
	if ph.Abort != nil && ph.Abort.State == configapi.ProposalAbortPhase_ABORTED {
		return true
	}
	return false
}

// ---------------------------------------------------------------- faults for device profiles

func (g *Gen) deviceFaults(p *Plan, kinds []string, max int) {
	n := g.pick(max + 1)
	for i := 0; i < n; i++ {
		t := p.Knobs.Targets[g.pick(len(p.Knobs.Targets))]
		k := kinds[g.pick(len(kinds))]
		f := Fault{Kind: k, Target: t}
		switch k {
		case "conn-down", "conn-replace", "dev-restart":
			if g.chance(1, 2) {
				f.On, f.N = "effect", 10+g.pick(150)
			} else {
				f.On, f.N = "step", 50+g.pick(1500)
			}
		case "dev-drop":
			f.On, f.N = "devset", 1+g.pick(5)
		case "crash":
			f.On, f.N = "effect", 10+g.pick(150)
		}
		p.Faults = append(p.Faults, f)
	}
}

// ---------------------------------------------------------------- C02

type c02 struct {
	s  *Sys
	as string // report under this property id (C07 arms the same monitors across crashes)
}

func (m *c02) id() string {
	if m.as != "" {
		return m.as
	}
	return "C02"
}

func (m *c02) Name() string { return "C02" }

func (m *c02) OnCfg(old, new *configapi.Configuration, w WriteRec) {
	if old == nil {
		return
	}
	s := m.s
	t := string(new.TargetID)
	ch := s.Rec.chain(t)
	next := func(after uint64) uint64 {
		for _, i := range ch {
			if i > after {
				return i
			}
		}
		return 0
	}
	oc, nc := uint64(old.Status.Committed.Index), uint64(new.Status.Committed.Index)
	if nc != oc {
		if nc < oc {
			s.Report(m.id(), "committed-index", "moved-backwards", fmt.Sprintf("%s: committed index moved from %d back to %d (by %s)", t, oc, nc, w.Task))
		} else if nc != next(oc) {
			s.Report(m.id(), "committed-index", "skipped", fmt.Sprintf("%s: committed index moved from %d to %d, skipping %d (chain %v, by %s)", t, oc, nc, next(oc), ch, w.Task))
		}
		s.K.Probe("c02-committed-advance")
	}
	oa, na := uint64(old.Status.Applied.Index), uint64(new.Status.Applied.Index)
	if na != oa {
		if na < oa {
			s.Report(m.id(), "applied-index", "moved-backwards", fmt.Sprintf("%s: applied index moved from %d back to %d (by %s)", t, oa, na, w.Task))
		} else if na != next(oa) {
			s.Report(m.id(), "applied-index", "skipped", fmt.Sprintf("%s: applied index moved from %d to %d, skipping %d (chain %v, by %s)", t, oa, na, next(oa), ch, w.Task))
		}
		if na > nc {
			s.Report(m.id(), "applied-index", "ahead-of-committed", fmt.Sprintf("%s: applied index %d is ahead of committed index %d", t, na, nc))
		}
	}
}

// values stamped with index i are merged only by the commit of i, in chain order
func (m *c02) OnVals(cfgID string, keys []string, w WriteRec) {
	if strings.HasSuffix(cfgID, "-applied") {
		return
	}
	s := m.s
	c := s.Rec.Cfgs[cfgID]
	if c == nil {
		return
	}
	t := string(c.TargetID)
	var stamped uint64
	for _, k := range keys {
		if pv := s.Rec.Vals[cfgID][k]; pv != nil && uint64(pv.Index) > stamped {
			stamped = uint64(pv.Index)
		}
	}
	if stamped == 0 {
		return
	}
	// the writer must be the commit of the next uncommitted proposal of the chain (rollbacks re-stamp old indexes: skip)
	pt, pi, ok := taskProposal(w.Task)
	if !ok || pt != t {
		return
	}
	p := s.Rec.Props[fmt.Sprintf("%s-%d", t, pi)]
	if p == nil || p.GetRollback() != nil {
		return
	}
	if uint64(c.Status.Committed.Index) != uint64(p.Status.PrevIndex) {
		s.Report(m.id(), "merge-order", "out-of-order", fmt.Sprintf("%s: values of transaction %d were merged while the committed index is %d (predecessor %d)", t, pi, c.Status.Committed.Index, p.Status.PrevIndex))
	}
}

// pushedBefore: the device has already accepted a Set of the proposal of transaction i (the applied values may be ahead of
// the applied index after a crash or a failed write between the two writes that record an apply - the value is then not
// "ahead of the chain", the device holds it already).
func (m *c02) pushedBefore(target string, i uint64) bool {
	// (called from the device's Set hook, which runs with the device's lock held)
	for _, q := range m.s.Devs[target].Log {
		if t, j, ok := taskProposal(q.Task); ok && t == target && j == i && (q.Outcome == "ok" || q.Outcome == "apply-then-drop") {
			return true
		}
	}
	return false
}

var uniqueValue = regexp.MustCompile(`^(s:v\d+|u:\d{6,}|i:-\d+)$`)

func (m *c02) OnDevSet(target string, q *DevReq) {
	s := m.s
	if isResyncTask(q.Task) {
		// A re-synchronisation repeats what has been applied: it must not carry the value of a change that has not been
		// applied yet (that would push it ahead of the changes still waiting in the chain). Values the scenario made
		// unique are attributed to the transaction that wrote them.
		c := s.Rec.Cfgs[CfgID(target)]
		if c == nil {
			return
		}
		s.MapCalls()
		for _, o := range q.Ops {
			if o.Del || !uniqueValue.MatchString(o.V) {
				continue
			}
			for ci, call := range s.Calls {
				if call == nil || call.Op.Kind != "set" {
					continue
				}
				for _, mo := range call.Op.Targets[target] {
					if !mo.Del && mo.V == o.V && mo.P.K() == o.P.K() {
						if i := s.Rec.IndexOfCall(ci); i != 0 && i > uint64(c.Status.Applied.Index) && !m.pushedBefore(target, i) {
							s.Report(m.id(), "resync-content", "unapplied-change-pushed", fmt.Sprintf("device %s: the re-synchronisation (%s) pushed %s=%s, written by transaction %d, while the applied index is %d", target, q.Task, o.P, o.V, i, c.Status.Applied.Index))
						}
					}
				}
			}
		}
		return
	}
	t, i, ok := taskProposal(q.Task)
	if !ok || t != target {
		s.Report(m.id(), "southbound-issuer", "unknown", fmt.Sprintf("device %s received a Set from task %q", target, q.Task))
		return
	}
	s.K.Probe("c02-southbound-set")
	c := s.Rec.Cfgs[CfgID(target)]
	if c == nil {
		return
	}
	// (c) never a later change before every earlier one of the chain finished applying
	for _, j := range s.Rec.chain(target) {
		if j >= i {
			break
		}
		// finished applying = the proposal says so, or the configuration's applied index has passed it (the proposal's own
		// status write may still be outstanding after a failed write or a restart)
		if !propApplyDone(s.Rec.Props[fmt.Sprintf("%s-%d", target, j)]) && uint64(c.Status.Applied.Index) < j {
			s.Report(m.id(), "southbound-order", "earlier-not-finished",
				fmt.Sprintf("device %s was sent the change of transaction %d while transaction %d has not finished applying (%s)", target, i, j, PropPhase(s.Rec.Props[fmt.Sprintf("%s-%d", target, j)])))
		}
	}
	// never a change that is not merged yet
	if uint64(c.Status.Committed.Index) < i {
		s.Report(m.id(), "southbound-order", "not-yet-merged", fmt.Sprintf("device %s was sent the change of transaction %d but the committed index is %d", target, i, c.Status.Committed.Index))
	}
}

// ---------------------------------------------------------------- C10

type c10 struct {
	s         *Sys
	taskTerms map[string]map[uint64]bool // election ids a task may legitimately use: terms current during the task
	taskConns map[string]map[string]bool
	taskRels  map[string]map[string]bool // CONTROLS relations that existed at some step of a task
	termSync  map[string]map[uint64]bool // target -> terms for which a re-sync completed (or was not needed)
	// resyncPush: target -> election ids with which the device accepted a push of the configuration controller
	resyncPush map[string]map[uint64]bool
	accepted  map[string]uint64          // highest accepted election id per device generation
	gen       map[string]int
}

func (m *c10) Name() string { return "C10" }

func (m *c10) OnCfg(old, new *configapi.Configuration, w WriteRec) {
	s := m.s
	t := string(new.TargetID)
	var ot uint64
	om := ""
	if old != nil {
		ot, om = uint64(old.Status.Mastership.Term), old.Status.Mastership.Master
	}
	nt, nm := uint64(new.Status.Mastership.Term), new.Status.Mastership.Master
	if nt < ot {
		s.Report("C10", "term", "decreased", fmt.Sprintf("%s: mastership term went from %d to %d (by %s)", t, ot, nt, w.Task))
	}
	if nm != om || nt != ot {
		if nm != "" {
			// the master must name an existing CONTROLS relation of the target at the step it is written
			// (what an optimistic reader can guarantee: the relation existed at some step of the reconcile that wrote it;
			// that it still exists once everything is quiet is checked at quiescence)
			ok := m.taskRels[w.Task][nm]
			for _, rel := range s.Topo.Relations(t) {
				if rel == nm {
					ok = true
				}
			}
			if !ok {
				s.Report("C10", "master", "not-a-relation", fmt.Sprintf("%s: master set to %s by %s, which was not a CONTROLS relation of the target at any step of that reconcile (relations now %v)", t, nm, w.Task, s.Topo.Relations(t)))
			}
			if nm != om && nt != ot+1 {
				s.Report("C10", "term", "no-new-term-for-new-master", fmt.Sprintf("%s: master changed from %q to %q but the term went from %d to %d", t, om, nm, ot, nt))
			}
			s.K.Probe("c10-master-assigned")
			if ot >= 1 {
				s.K.Probe("c10-master-reassigned")
			}
		}
		if nm == om && nt != ot {
			s.Report("C10", "term", "changed-without-master-change", fmt.Sprintf("%s: term went from %d to %d with master unchanged (%q)", t, ot, nt, nm))
		}
	}
	// a term is usable for new changes once the applied term reached it
	at := uint64(new.Status.Applied.Mastership.Term)
	var oat uint64
	if old != nil {
		oat = uint64(old.Status.Applied.Mastership.Term)
	}
	if at != 0 && at != oat && new.Status.Applied.Index > 0 && !s.Plan.Knobs.Persistent[t] && len(s.Rec.Vals[CfgID(t)+"-applied"]) > 0 && !m.resyncPush[t][at] {
		// (round 2) the record's word is not taken for it: when the Configuration is declared synchronized in a term,
		// the device must have accepted at least one push of the configuration controller carrying that term - the
		// applied values are not empty, so something had to be re-sent. (The first version derived "re-synchronised in
		// term t" from the record alone and could not see a status written before the pushes.)
		s.Report("C10", "resync-first", "synchronized-without-push", fmt.Sprintf("%s: the Configuration is recorded as synchronized in term %d (by %s) with applied index %d and %d applied values, but the device accepted no re-synchronisation push with that election id", t, at, w.Task, new.Status.Applied.Index, len(s.Rec.Vals[CfgID(t)+"-applied"])))
	}
	if at != 0 {
		if m.termSync[t] == nil {
			m.termSync[t] = map[uint64]bool{}
		}
		m.termSync[t][at] = true
	}
	// every running task may use the terms / masters that are current while it runs
	for task := range m.taskTerms {
		if strings.Contains(task, "/"+t+"/") || strings.Contains(task, CfgID(t)) {
			m.taskTerms[task][nt] = true
			m.taskConns[task][s.K.Name("conn", nm)] = true
		}
	}
}

func (m *c10) start(task string) {
	s := m.s
	m.taskTerms[task] = map[uint64]bool{}
	m.taskConns[task] = map[string]bool{}
	m.taskRels[task] = map[string]bool{}
	for _, t := range s.Plan.Knobs.Targets {
		for _, rel := range s.Topo.Relations(t) {
			m.taskRels[task][rel] = true
		}
	}
	for id, c := range s.Rec.Cfgs {
		if strings.Contains(task, "/"+string(c.TargetID)+"/") || strings.Contains(task, id) {
			m.taskTerms[task][uint64(c.Status.Mastership.Term)] = true
			m.taskConns[task][s.K.Name("conn", c.Status.Mastership.Master)] = true
		}
	}
}

func (m *c10) OnConnFault(target, kind string) {
	if kind == "restart" {
		m.gen[target]++
		m.accepted[target] = 0
	}
	m.s.K.Probe("c10-conn-fault-" + kind)
}

func (m *c10) OnDevSet(target string, q *DevReq) {
	s := m.s
	c := s.Rec.Cfgs[CfgID(target)]
	if c == nil {
		s.Report("C10", "southbound", "no-configuration", fmt.Sprintf("device %s received a Set but has no configuration record", target))
		return
	}
	terms := m.taskTerms[q.Task]
	if terms == nil {
		s.Report("HARNESS", "c10", "unknown-task", "Set from unknown task "+q.Task)
		return
	}
	accepted := q.Outcome == "ok" || q.Outcome == "apply-then-drop"
	if !terms[q.Election] {
		// a stale election id is tolerated only if the device refuses it
		if accepted {
			s.Report("C10", "election-id", "not-a-current-term", fmt.Sprintf("device %s accepted a Set with election id %d from %s; terms current during that reconcile: %v", target, q.Election, q.Task, keysU(terms)))
		} else {
			s.K.Probe("c10-stale-election-refused")
		}
	}
	if accepted {
		if q.Election < m.accepted[target] {
			s.Report("C10", "election-id", "accepted-below-highest", fmt.Sprintf("device %s accepted election id %d after %d", target, q.Election, m.accepted[target]))
		}
		m.accepted[target] = q.Election
		if !m.taskConns[q.Task][q.Conn] {
			s.Report("C10", "connection", "not-the-master", fmt.Sprintf("device %s was written over %s by %s; master connections current during that reconcile: %v", target, q.Conn, q.Task, keysS(m.taskConns[q.Task])))
		}
		// no new change in a term before the applied configuration has been re-sent in that term
		if _, _, isProp := taskProposal(q.Task); isProp {
			if !m.termSync[target][q.Election] && !s.Plan.Knobs.Persistent[target] {
				s.Report("C10", "resync-first", "change-before-resync", fmt.Sprintf("device %s was sent a new change (%s) with election id %d before a re-synchronisation completed in that term (synchronised terms: %v)", target, q.Task, q.Election, keysU(m.termSync[target])))
			}
		} else if isResyncTask(q.Task) {
			s.K.Probe("c10-resync-set")
			if m.resyncPush[target] == nil {
				m.resyncPush[target] = map[uint64]bool{}
			}
			m.resyncPush[target][q.Election] = true
		}
	}
}

func (m *c10) OnTopo(ev topoapi.Event, task string) {
	if ev.Object.GetRelation() == nil || ev.Type == topoapi.EventType_REMOVED {
		return
	}
	for _, rels := range m.taskRels {
		rels[string(ev.Object.ID)] = true
	}
}

func keysU(m map[uint64]bool) []uint64 {
	var out []uint64
	for k := range m {
		out = append(out, k)
	}
	sort.Slice(out, func(i, j int) bool { return out[i] < out[j] })
	return out
}

func keysS(m map[string]bool) []string {
	var out []string
	for k := range m {
		out = append(out, k)
	}
	sort.Strings(out)
	return out
}

func (m *c10) AtQuiescence() {
	s := m.s
	// at most one master, and it is the current connection, once everything is quiet and connected
	for _, t := range s.Plan.Knobs.Targets {
		c := s.Rec.Cfgs[CfgID(t)]
		if c == nil || !s.connUp[t] {
			continue
		}
		cur := s.Inc.conns.Current(t)
		if c.Status.Mastership.Master != cur {
			s.Report("C10", "master", "not-current-connection-at-quiescence", fmt.Sprintf("%s: master is %q but the only connection is %q", t, c.Status.Mastership.Master, cur))
		}
		if rels := s.Topo.Relations(t); len(rels) != 1 {
			s.Report("C10", "relations", "stale-relations-at-quiescence", fmt.Sprintf("%s: CONTROLS relations at quiescence: %v (one connection)", t, rels))
		}
	}
	mod := s.PredictedFold()
	s.CompareDevices(s.DeviceFold(mod), "C10", "device-vs-model")
}

// ---------------------------------------------------------------- C04

type c04 struct {
	s *Sys
}

func (m *c04) Name() string { return "C04" }

func (m *c04) OnConnFault(target, kind string) { m.s.K.Probe("c04-" + kind) }

// FillExtra lists, per target, the ordinals of the southbound Sets issued by the configuration controller (the pushes of
// re-synchronisations).
func (m *c04) FillExtra(x map[string]string) { fillResyncSets(m.s, x) }

func fillResyncSets(s *Sys, x map[string]string) {
	for _, t := range s.Plan.Knobs.Targets {
		d := s.Devs[t]
		var ns []string
		d.mu.Lock()
		for _, q := range d.Log {
			if strings.HasPrefix(q.Task, "rec/configuration/") {
				ns = append(ns, fmt.Sprint(q.N))
			}
		}
		d.mu.Unlock()
		x["resync-sets/"+t] = strings.Join(ns, ",")
	}
}

// runResync resolves Knobs.Resync: first pass without it, then the fault is placed at one of the re-synchronisation pushes
// the first pass showed (the schedule up to there is the same: the run is a function of the plan).
func runResync(t *testing.T, plan *Plan, prof *Profile) *Result {
	if plan.Knobs.Resync == nil {
		return runSys(t, plan, prof)
	}
	rs := plan.Knobs.Resync
	pass1 := plan.Clone()
	pass1.Knobs.Resync = nil
	r1 := runSys(t, pass1, prof)
	if r1.Harness != "" || len(r1.Viol) > 0 {
		r1.Plan = pass1
		return r1
	}
	var ns []int
	for _, f := range strings.Split(r1.Extra["resync-sets/"+rs.Target], ",") {
		var n int
		if _, err := fmt.Sscan(f, &n); err == nil && n > 0 {
			ns = append(ns, n)
		}
	}
	final := plan.Clone()
	final.Knobs.Resync = nil
	if len(ns) > 0 {
		n := ns[len(ns)-1-rs.Pick%len(ns)]
		final.Faults = append(final.Faults, Fault{Kind: rs.Kind, Target: rs.Target, On: rs.On, N: n})
		final.Profile += "+at-resync-push"
	}
	res := runSys(t, final, prof)
	res.Plan = final
	return res
}

func (m *c04) AtQuiescence() {
	s := m.s
	mod := s.PredictedFold()
	for _, t := range s.Plan.Knobs.Targets {
		c := s.Rec.Cfgs[CfgID(t)]
		if c == nil {
			continue
		}
		if !s.connUp[t] {
			s.Report("HARNESS", "c04", "not-connected", "device not connected at quiescence: "+t)
		}
		if s.Plan.Knobs.Persistent[t] {
			continue // a persistent target is never re-synchronised (PERSISTED); its device is compared below all the same
		}
		if c.Status.State != configapi.ConfigurationStatus_SYNCHRONIZED || c.Status.Applied.Mastership.Term != c.Status.Mastership.Term {
			// connected but never reported synchronized: a liveness problem of the re-synchronisation itself
			s.Report("C04", "synchronized", "never-synchronized", fmt.Sprintf("%s is connected and nothing is pending, but the configuration is %s in term %d (applied term %d)", t, c.Status.State, c.Status.Mastership.Term, c.Status.Applied.Mastership.Term))
			return
		}
	}
	s.CompareTargets(mod, "C04", "get-vs-model")
	s.CompareDevices(s.DeviceFold(mod), "C04", "device-vs-model")
}

// ---------------------------------------------------------------- C11

type c11 struct {
	s *Sys
	// injected answers seen by proposal (target-index): codes in order
	seen map[string][]string
}

func (m *c11) Name() string { return "C11" }

func (m *c11) OnDevSet(target string, q *DevReq) {
	if t, i, ok := taskProposal(q.Task); ok && t == target {
		k := fmt.Sprintf("%s-%d", t, i)
		m.seen[k] = append(m.seen[k], q.Outcome)
		if strings.HasPrefix(q.Outcome, "code:") {
			m.s.K.Probe("c11-device-error-returned")
		}
	}
}

// failure class the records must show for a device refusal with the given gRPC code
var refusalClass = map[string]configapi.Failure_Type{
	"code:Unknown":                  configapi.Failure_UNKNOWN,
	"code:NotFound":                 configapi.Failure_NOT_FOUND,
	"code:AlreadyExists":            configapi.Failure_ALREADY_EXISTS,
	"code:Unauthenticated":          configapi.Failure_UNAUTHORIZED,
	"code:FailedPrecondition":       configapi.Failure_CONFLICT,
	"code:InvalidArgument":          configapi.Failure_INVALID,
	"code:InvalidArgument(content)": configapi.Failure_INVALID,
	"code:Unimplemented":            configapi.Failure_NOT_SUPPORTED,
	"code:Internal":                 configapi.Failure_INTERNAL,
}

var transientOutcome = map[string]bool{"code:Unavailable": true, "code:Canceled": true, "code:DeadlineExceeded": true, "denied": true,
	"apply-then-drop": true, "code:Unavailable(restarted)": true}

func (m *c11) AtQuiescence() {
	s := m.s
	r := s.Rec
	keys := make([]string, 0, len(m.seen))
	for k := range m.seen {
		keys = append(keys, k)
	}
	sort.Strings(keys)
	for _, k := range keys {
		p := r.Props[k]
		if p == nil {
			continue
		}
		tx := r.Txs[uint64(p.TransactionIndex)]
		outcomes := m.seen[k]
		var refusal string
		for _, o := range outcomes {
			if _, ok := refusalClass[o]; ok && refusal == "" {
				refusal = o
			}
		}
		ap := p.Status.Phases.Apply
		if refusal != "" {
			want := refusalClass[refusal]
			if ap == nil || ap.State != configapi.ProposalApplyPhase_FAILED {
				s.Report("C11", "refusal", "not-failed", fmt.Sprintf("device refused the change of %s with %s but the proposal is %s", k, refusal, PropPhase(p)))
			} else if ap.Failure == nil || ap.Failure.Type != want {
				s.Report("C11", "refusal", "wrong-class", fmt.Sprintf("device refused the change of %s with %s; recorded failure %v, expected class %s", k, refusal, ap.Failure, want))
			}
			if tx != nil && TxFinal(tx) && tx.Status.State != configapi.TransactionStatus_FAILED {
				s.Report("C11", "refusal", "transaction-not-failed", fmt.Sprintf("device refused the change of %s with %s but transaction %d is %s", k, refusal, p.TransactionIndex, TxPhase(tx)))
			}
			if tx != nil {
				if c, ok := s.indexCall[uint64(tx.Index)]; ok && s.Calls[c] != nil && s.Calls[c].Returned && !s.Calls[c].Cut && !s.Calls[c].Op.Async && s.Calls[c].Err == nil {
					s.Report("C11", "refusal", "caller-told-ok", fmt.Sprintf("device refused the change of %s with %s but the synchronous caller was answered OK", k, refusal))
				}
			}
		} else {
			// only transient conditions were met: the change must not be failed, and must be applied once reachable
			onlyTransient := false
			for _, o := range outcomes {
				if transientOutcome[o] {
					onlyTransient = true
				}
			}
			if onlyTransient {
				s.K.Probe("c11-transient-then-retry")
				if ap != nil && ap.State == configapi.ProposalApplyPhase_FAILED {
					s.Report("C11", "transient", "failed", fmt.Sprintf("the device was merely unreachable/slow/superseded for %s (answers %v) but the change was failed: %v", k, outcomes, ap.Failure))
				} else if ap == nil || ap.State != configapi.ProposalApplyPhase_APPLIED {
					s.Report("C11", "transient", "not-applied-after-heal", fmt.Sprintf("the device was merely unreachable for %s (answers %v); after it became reachable the change is still %s", k, outcomes, PropPhase(p)))
				}
			}
		}
	}
	// other targets and later transactions still proceed, in order: everything is final (C09's oracle, restricted)
	if stuck, shape := s.StuckReport(); stuck != "" {
		s.Report("C11", "progress", "blocked-after-device-error:"+shape, "after device errors stopped and every device is reachable: "+stuck)
	}
	// the device is left as it was by a refused change: device == fold of the applied ones. Narrow relaxation: a change
	// that the device applied while the answer was lost (apply-then-drop) and that was then refused on the retry is
	// legitimately on the device although recorded as failed; such a target is not compared.
	ambiguous := map[string]bool{}
	for k, outcomes := range m.seen {
		p := r.Props[k]
		for _, o := range outcomes {
			if o == "apply-then-drop" && p != nil && (p.Status.Phases.Apply == nil || p.Status.Phases.Apply.State != configapi.ProposalApplyPhase_APPLIED) {
				ambiguous[string(p.TargetID)] = true
			}
		}
	}
	mod := s.PredictedFold()
	s.CompareDevices(s.DeviceFold(mod), "C11", "device-vs-model", ambiguous)
}

// ---------------------------------------------------------------- profiles

func devScenario(g *Gen, p *Plan, tier string, o ScenOpts) {
	maxTx := 6
	if tier == "thorough" {
		maxTx = 10
	}
	if o.MaxTx == 0 {
		o.MaxTx = maxTx
	}
	if o.MinTx == 0 {
		o.MinTx = 2
	}
	p.Scenario = g.Scenario(o, p.Knobs.Targets)
	p.Sched = g.RandSched()
	if g.chance(1, 2) {
		p.Knobs.MapSeed = g.R.Uint64() | 1
	}
	// the connection objects of a target share one self-reconnecting channel (as in the real connection manager) in two
	// runs out of three; in the others a lost connection's objects stay dead
	p.Knobs.SharedChannel = g.chance(2, 3)
}

func init() {
	Profiles["C02"] = &Profile{
		Property: "C02", Engine: "syssim",
		Rule: "non-trivial: at least two transactions overlapped on one target and at least one southbound Set or committed-index advance was observed by the step monitors; distinct = distinct action-trace hash",
		Gen: func(seed uint64, tier string) *Plan {
			g := NewGen(seed)
			p := &Plan{Property: "C02", Profile: "per-target-order", Seed: seed}
			p.Knobs.Targets = g.RandTargets(3)
			devScenario(g, p, tier, ScenOpts{MaxOps: 3, PoisonPct: 15, DelPct: 30, RollbackPct: 10, BadRollbackPct: 30, AsyncPct: 50, MultiPct: 50, PipelinePct: 85})
			p.Knobs.ConnLate = map[string]bool{}
			p.Knobs.NoDevice = map[string]bool{}
			for _, t := range p.Knobs.Targets {
				switch g.pick(4) {
				case 0:
					p.Knobs.ConnLate[t] = true
				case 1:
					p.Knobs.NoDevice[t] = true
				}
			}
			if g.chance(1, 3) {
				p.Profile = "per-target-order+faults"
				g.deviceFaults(p, []string{"conn-down", "crash", "dev-restart"}, 2)
			}
			if g.chance(1, 4) {
				// (wave 6) an interruption right after a write of the Configuration record - the merge of a change has landed,
				// the proposal's COMMITTED status has not - or at a random store write: the retry must neither merge again on
				// top of a successor nor skip
				p.Profile += "+store-faults"
				for i := 0; i <= g.pick(2); i++ {
					k := []string{"crash", "op-unavail", "op-acklost"}[g.pick(3)]
					if g.chance(2, 3) {
						p.Faults = append(p.Faults, Fault{Kind: k, On: "after-write", Target: "configurations/update", N: 1 + g.pick(12), Burst: g.pick(2)})
					} else if k != "crash" {
						p.Faults = append(p.Faults, Fault{Kind: k, On: "write", N: 5 + g.pick(150)})
					}
				}
			}
			g.swarmExtras(p, true, false)
			return p
		},
		Arm: func(s *Sys) { s.Mon = append(s.Mon, &c02{s: s}, &overlapProbe{s: s}) },
		NonTrivial: func(s *Sys) bool {
			return s.K.Probes["overlap-on-target"] > 0 && (s.K.Probes["c02-southbound-set"] > 0 || s.K.Probes["c02-committed-advance"] > 0)
		},
	}
	Profiles["C04"] = &Profile{
		Property: "C04", Engine: "syssim",
		Rule: "non-trivial: the device was offline when at least one change was committed, or restarted empty, or its connection was dropped/replaced, or it refused a change, and at quiescence it holds at least one leaf or the model expects none; distinct = distinct action-trace hash",
		Gen: func(seed uint64, tier string) *Plan {
			g := NewGen(seed)
			p := &Plan{Property: "C04", Profile: "device-convergence", Seed: seed}
			p.Knobs.Targets = g.RandTargets(2)
			p.Knobs.RejectDev = g.chance(1, 3)
			rej := 0
			if p.Knobs.RejectDev {
				rej = 25
			}
			devScenario(g, p, tier, ScenOpts{MaxOps: 4, PoisonPct: 8, DelPct: 40, RollbackPct: 15, BadRollbackPct: 20, AsyncPct: 40, MultiPct: 30, PipelinePct: 50, DevRejectPct: rej})
			if g.chance(1, 6) {
				// histories piled onto one sub-tree (nested deletes, re-creation, unrelated commits): what a re-synchronisation
				// has to reproduce from tombstones and live values
				p.Scenario = g.LadderScenario(p.Knobs.Targets[0], 12)
			}
			p.Knobs.ConnLate = map[string]bool{}
			p.Knobs.NoDevice = map[string]bool{}
			for _, t := range p.Knobs.Targets {
				switch g.pick(4) {
				case 0:
					p.Knobs.ConnLate[t] = true
				case 1:
					p.Knobs.NoDevice[t] = true
				}
			}
			g.deviceFaults(p, []string{"conn-down", "conn-replace", "dev-restart", "dev-restart", "dev-drop"}, 3)
			if g.chance(1, 2) {
				// faults that land while a southbound Set is in flight - an apply, or one of the pushes of a
				// re-synchronisation (a second restart while the first one is still being repaired)
				p.Profile = "device-convergence+inflight"
				for i := 0; i <= g.pick(2); i++ {
					t := p.Knobs.Targets[g.pick(len(p.Knobs.Targets))]
					k := []string{"dev-restart", "dev-restart", "conn-replace", "conn-down"}[g.pick(4)]
					// ... or right after the device answered one: the issuing reconcile has the answer and has not yet
					// recorded it
					on := []string{"during-devset", "after-devset"}[g.pick(2)]
					p.Faults = append(p.Faults, Fault{Kind: k, Target: t, On: on, N: 1 + g.pick(8)})
				}
				if g.chance(2, 3) {
					// one more fault exactly at a push of a re-synchronisation (resolved by the runner)
					t := p.Knobs.Targets[g.pick(len(p.Knobs.Targets))]
					p.Knobs.Resync = &ResyncSpec{Target: t, Pick: []int{0, 0, 0, 1, 2}[g.pick(5)], Kind: []string{"dev-restart", "dev-restart", "conn-replace"}[g.pick(3)],
						On: []string{"after-devset", "after-devset", "during-devset"}[g.pick(3)]}
					// (a re-synchronisation needs something to repair: the device restarts once after a while)
					p.Faults = append(p.Faults, Fault{Kind: "dev-restart", Target: t, On: "effect", N: 60 + g.pick(140)})
				}
				if g.chance(1, 2) {
					// every call of one controller's reconciles is served last: everything else (a new connection, a new
					// master) gets in between a push and the record of its outcome
					p.Sched.Policy = []string{"starve", "window"}[g.pick(2)]
					p.Sched.Starve = []string{"task:rec/configuration", "task:rec/configuration", "task:rec/proposal", "op/configurations/"}[g.pick(4)]
				}
			}
			if g.chance(1, 5) {
				// (round 2) the apply of a change is a push and two store writes (applied values, then the record): a failed
				// or lost write, or a stop of the process, right after the device's answer, and a device restart later on -
				// what is re-sent then comes from what those writes left behind
				p.Profile += "+store-faults"
				for i := 0; i <= g.pick(2); i++ {
					t := p.Knobs.Targets[g.pick(len(p.Knobs.Targets))]
					p.Faults = append(p.Faults, Fault{Kind: []string{"op-unavail", "op-acklost", "crash"}[g.pick(3)], On: "after-devset", Target: t, N: 1 + g.pick(6), Burst: g.pick(3)})
				}
				t := p.Knobs.Targets[g.pick(len(p.Knobs.Targets))]
				p.Faults = append(p.Faults, Fault{Kind: "dev-restart", Target: t, On: "effect", N: 80 + g.pick(160)})
			}
			g.swarmExtras(p, true, true)
			return p
		},
		Run: func(t *testing.T, plan *Plan) *Result { return runResync(t, plan, Profiles["C04"]) },
		Arm: func(s *Sys) { s.Mon = append(s.Mon, &c04{s: s}) },
		NonTrivial: func(s *Sys) bool {
			k := s.K
			return k.Probes["c04-down"]+k.Probes["c04-replace"]+k.Probes["c04-restart"]+k.Stats["fault/dev-apply-then-drop"]+k.Stats["fault/dev-content-reject"] > 0 ||
				len(s.Plan.Knobs.NoDevice)+len(s.Plan.Knobs.ConnLate) > 0
		},
	}
	Profiles["C10"] = &Profile{
		Property: "C10", Engine: "syssim",
		Rule: "non-trivial: mastership was assigned at least twice for one target (connection lost / replaced / device restarted) or a stale election id was refused by the device; distinct = distinct action-trace hash",
		Gen: func(seed uint64, tier string) *Plan {
			g := NewGen(seed)
			p := &Plan{Property: "C10", Profile: "mastership", Seed: seed}
			p.Knobs.Targets = g.RandTargets(2)
			devScenario(g, p, tier, ScenOpts{MaxOps: 3, PoisonPct: 5, DelPct: 30, RollbackPct: 8, BadRollbackPct: 20, AsyncPct: 50, MultiPct: 30, PipelinePct: 60})
			g.deviceFaults(p, []string{"conn-down", "conn-replace", "conn-replace", "dev-restart"}, 4)
			if len(p.Faults) == 0 {
				p.Faults = append(p.Faults, Fault{Kind: "conn-replace", Target: p.Knobs.Targets[0], On: "step", N: 100 + g.pick(600)})
			}
			if g.chance(1, 3) {
				p.Profile = "mastership+inflight"
				for i := 0; i <= g.pick(2); i++ {
					t := p.Knobs.Targets[g.pick(len(p.Knobs.Targets))]
					k := []string{"dev-restart", "conn-replace", "conn-replace", "conn-down"}[g.pick(4)]
					p.Faults = append(p.Faults, Fault{Kind: k, Target: t, On: "during-devset", N: 1 + g.pick(8)})
				}
			}
			g.swarmExtras(p, true, true)
			return p
		},
		Arm: func(s *Sys) {
			m := &c10{s: s, taskTerms: map[string]map[uint64]bool{}, taskConns: map[string]map[string]bool{}, taskRels: map[string]map[string]bool{}, termSync: map[string]map[uint64]bool{}, resyncPush: map[string]map[uint64]bool{},
				accepted: map[string]uint64{}, gen: map[string]int{}}
			s.Mon = append(s.Mon, m)
			s.OnTaskStart = m.start
		},
		NonTrivial: func(s *Sys) bool {
			return s.K.Probes["c10-master-reassigned"] > 0 || s.K.Probes["c10-stale-election-refused"] > 0
		},
	}
	Profiles["C11"] = &Profile{
		Property: "C11", Engine: "syssim",
		Rule: "non-trivial: at least one injected device answer (refusal code, transient code, apply-then-drop or arbitration denial) was actually returned to an apply; distinct = distinct action-trace hash",
		Gen: func(seed uint64, tier string) *Plan {
			g := NewGen(seed)
			p := &Plan{Property: "C11", Profile: "device-errors", Seed: seed}
			p.Knobs.Targets = g.RandTargets(2)
			p.Knobs.RejectDev = g.chance(1, 4)
			rej := 0
			if p.Knobs.RejectDev {
				rej = 30
			}
			devScenario(g, p, tier, ScenOpts{MaxOps: 3, PoisonPct: 5, DelPct: 30, RollbackPct: 5, BadRollbackPct: 0, AsyncPct: 40, MultiPct: 40, PipelinePct: 60, DevRejectPct: rej})
			refusals := []codes.Code{codes.InvalidArgument, codes.Internal, codes.Unknown, codes.NotFound, codes.AlreadyExists, codes.FailedPrecondition, codes.Unimplemented, codes.Unauthenticated}
			transients := []codes.Code{codes.Unavailable, codes.Canceled, codes.DeadlineExceeded}
			n := 1 + g.pick(3)
			for i := 0; i < n; i++ {
				t := p.Knobs.Targets[g.pick(len(p.Knobs.Targets))]
				f := Fault{Kind: "dev-error", On: "devset", Target: t, N: 1 + g.pick(5)}
				if g.chance(1, 2) {
					f.Code = int(refusals[g.pick(len(refusals))])
				} else {
					f.Code = int(transients[g.pick(len(transients))])
					f.Burst = 1 + g.pick(5)
				}
				p.Faults = append(p.Faults, f)
			}
			if g.chance(1, 4) {
				g.deviceFaults(p, []string{"conn-down", "dev-drop", "conn-replace"}, 2)
			}
			if g.chance(1, 3) {
				// the store write that records the device's answer fails, or its acknowledgement is lost: the reconcile
				// is retried on a half-recorded outcome
				p.Profile = "device-errors+store-faults"
				nf := len(p.Faults)
				for i := 0; i < nf && i < 2; i++ {
					if f0 := p.Faults[i]; f0.Kind == "dev-error" {
						p.Faults = append(p.Faults, Fault{Kind: []string{"op-unavail", "op-acklost"}[g.pick(2)], On: "after-devset", Target: f0.Target, N: f0.N, Burst: g.pick(3)})
					}
				}
			}
			g.swarmExtras(p, true, true)
			return p
		},
		Arm: func(s *Sys) { s.Mon = append(s.Mon, &c11{s: s, seen: map[string][]string{}}) },
		NonTrivial: func(s *Sys) bool {
			return s.K.Probes["c11-device-error-returned"]+s.K.Probes["dev-arbitration-denied"]+s.K.Stats["fault/dev-apply-then-drop"] > 0
		},
	}
}
