package sim

import (
	"fmt"
	"strings"
)

// ScenOpts tunes the generic scenario generator.
type ScenOpts struct {
	MinTx, MaxTx   int
	MaxOps         int
	PoisonPct      int
	DelPct         int
	RollbackPct    int
	BadRollbackPct int // of rollbacks: target something other than the latest change / a missing index
	AsyncPct       int
	SerialPct      int
	MultiPct       int // sets naming several targets
	PipelinePct    int // run-level: all ops in flight at once
	DevRejectPct   int // sets containing a value the device refuses (only meaningful with RejectDev)
}

// Scenario draws a client scenario.
func (g *Gen) Scenario(o ScenOpts, targets []string) []ClientOp {
	n := o.MinTx + g.pick(o.MaxTx-o.MinTx+1)
	pipelined := g.R.Intn(100) < o.PipelinePct
	var ops []ClientOp
	var setPos []int
	for i := 0; i < n; i++ {
		wait := -1
		if !pipelined && i > 0 && g.chance(2, 3) {
			wait = i - 1
		}
		if len(setPos) > 0 && g.R.Intn(100) < o.RollbackPct {
			op := ClientOp{Kind: "rollback", WaitFor: wait}
			if g.R.Intn(100) < o.BadRollbackPct {
				switch g.pick(3) {
				case 0:
					op.Of, op.Raw = -1, uint64(50+g.pick(5)) // missing index
				case 1:
					op.Of = setPos[g.pick(len(setPos))] // any earlier set, maybe not the latest
				default:
					// the index of an earlier rollback (or the first transaction)
					op.Of, op.Raw = -1, uint64(1+g.pick(i+1))
				}
			} else {
				op.Of = setPos[len(setPos)-1]
			}
			if op.Of >= 0 {
				// the client needs the Set's answer to know its index
				if op.WaitFor < op.Of {
					op.WaitFor = op.Of
				}
			}
			ops = append(ops, op)
			continue
		}
		op := ClientOp{Kind: "set", WaitFor: wait, Targets: map[string][]MOp{}}
		op.Async = g.R.Intn(100) < o.AsyncPct
		op.Serial = g.R.Intn(100) < o.SerialPct
		nt := 1
		if len(targets) > 1 && g.R.Intn(100) < o.MultiPct {
			nt = 2 + g.pick(len(targets)-1)
		}
		perm := g.R.Perm(len(targets))
		poisonAt := -1
		if g.R.Intn(100) < o.PoisonPct {
			poisonAt = g.pick(nt)
		}
		for j := 0; j < nt; j++ {
			t := targets[perm[j]]
			tops := g.RandOps(o.MaxOps, o.DelPct, j == poisonAt)
			if g.R.Intn(100) < o.DevRejectPct {
				g.vseq++
				tops = append(tops, MOp{P: Path{{Name: "cont1a"}, {Name: "cont2ab"}, {Name: "leaf2c"}}, V: fmt.Sprintf("s:%s%d", DevRejectValue, g.vseq)})
				tops = dedupOps(tops)
			}
			op.Targets[t] = tops
		}
		op.Prefix = nt == 1 && g.chance(1, 3)
		setPos = append(setPos, i)
		ops = append(ops, op)
	}
	return ops
}

func dedupOps(ops []MOp) []MOp {
	seen := map[string]bool{}
	var out []MOp
	for i := len(ops) - 1; i >= 0; i-- {
		k := fmt.Sprintf("%v|%s", ops[i].Del, ops[i].P.K())
		if !ops[i].Del && seen["false|"+ops[i].P.K()] {
			continue
		}
		seen[k] = true
		out = append([]MOp{ops[i]}, out...)
	}
	// drop updates whose path is also deleted in the same request
	dels := map[string]bool{}
	for _, o := range out {
		if o.Del {
			dels[o.P.K()] = true
		}
	}
	var res []MOp
	for _, o := range out {
		if !o.Del && dels[o.P.K()] {
			continue
		}
		res = append(res, o)
	}
	return res
}

// RandSched draws a scheduling policy.
func (g *Gen) RandSched() Sched {
	s := Sched{Seed: g.R.Uint64()}
	switch g.pick(6) {
	case 0:
		s.Policy = "fifo"
	case 1, 2:
		s.Policy = "rand"
	case 3:
		s.Policy = "rtc"
		s.P = []int{0, 1, 4}[g.pick(3)]
	default:
		s.Policy = "starve"
		cands := []string{"rec/transaction", "rec/proposal", "rec/configuration", "rec/mastership", "rec/connection",
			"ev/transactions", "ev/proposals", "ev/configurations", "ev/topo", "ev/conns", "op/transactions/get/tx", "cli/", "val/"}
		s.Starve = cands[g.pick(len(cands))]
		if g.chance(1, 4) {
			s.Starve += "," + cands[g.pick(len(cands))]
		}
	}
	return s
}

// RandTargets draws 1..3 target names.
func (g *Gen) RandTargets(max int) []string {
	all := []string{"t1", "t2", "t3"}
	n := 1 + g.pick(max)
	return all[:n]
}

// hasPrefixPath reports whether q is an element-wise prefix of p.
func hasPrefixPath(p, q Path) bool {
	if len(q) > len(p) {
		return false
	}
	return Path(p[:len(q)]).K() == q.K()
}

// LadderScenario draws a history of small sequential Sets piled onto one deep leaf path ("focus"): rounds of
// (populate) -> deletes of several of its ancestors, outer to inner, inner to outer or shuffled -> re-creation of the leaf
// or of a sibling -> a commit that does not touch the sub-tree. Nested tombstones, re-creation beneath them and the
// pruning done by later unrelated commits are what such histories exercise; purely random histories almost never line
// these steps up.
func (g *Gen) LadderScenario(target string, maxSets int) []ClientOp {
	g.SetFocus(0)
	f := g.focus
	var ops []ClientOp
	add := func(mops ...MOp) {
		wait := len(ops) - 1
		if g.chance(1, 6) {
			wait = -1 // in flight together with its predecessor (the log order still decides)
		}
		ops = append(ops, ClientOp{Kind: "set", WaitFor: wait, Async: g.chance(1, 3), Prefix: g.chance(1, 3), Targets: map[string][]MOp{target: dedupOps(mops)}})
	}
	leafOp := func() MOp { return MOp{P: append(Path{}, f...), V: g.RandValue(g.focusTyp, f)} }
	sibling := func() (MOp, bool) {
		for i := 0; i < 20; i++ {
			p, typ := g.RandLeafPath(false)
			if len(p) >= 2 && hasPrefixPath(p, f[:len(f)-1]) && p.K() != f.K() {
				return MOp{P: p, V: g.RandValue(typ, p)}, true
			}
			// a leaf beneath the same top-level ancestors but another branch
			if len(p) >= 2 && hasPrefixPath(p, f[:1]) && !hasPrefixPath(p, f[:len(f)-1]) && g.chance(1, 4) {
				return MOp{P: p, V: g.RandValue(typ, p)}, true
			}
		}
		return MOp{}, false
	}
	unrelated := func(outer int) MOp {
		for {
			p, typ := g.RandLeafPath(false)
			if hasPrefixPath(p, f[:outer]) {
				continue
			}
			if g.chance(1, 2) && hasPrefixPath(p, f[:1]) {
				continue
			}
			return MOp{P: p, V: g.RandValue(typ, p)}
		}
	}
	rounds := 1 + g.pick(3)
	for r := 0; r < rounds && len(ops) < maxSets; r++ {
		if g.chance(1, 2) {
			m := []MOp{leafOp()}
			if sb, ok := sibling(); ok && g.chance(1, 2) {
				m = append(m, sb)
			}
			add(m...)
		}
		// deletes of a subset of the ancestors (depths 1..len-1), sometimes of the leaf itself
		var depths []int
		for d := 1; d < len(f); d++ {
			if g.chance(2, 3) {
				depths = append(depths, d)
			}
		}
		if len(depths) == 0 {
			depths = []int{1 + g.pick(len(f)-1)}
		}
		if g.chance(1, 5) {
			depths = append(depths, len(f))
		}
		switch g.pick(10) {
		case 0, 1, 2: // inner to outer
			for i, j := 0, len(depths)-1; i < j; i, j = i+1, j-1 {
				depths[i], depths[j] = depths[j], depths[i]
			}
		case 3, 4: // shuffled
			g.R.Shuffle(len(depths), func(i, j int) { depths[i], depths[j] = depths[j], depths[i] })
		}
		outer := len(f)
		for i := 0; i < len(depths); i++ {
			d := depths[i]
			if d < outer {
				outer = d
			}
			m := []MOp{{Del: true, P: append(Path{}, f[:d]...)}}
			if i+1 < len(depths) && g.chance(1, 6) {
				i++
				m = append(m, MOp{Del: true, P: append(Path{}, f[:depths[i]]...)})
				if depths[i] < outer {
					outer = depths[i]
				}
			}
			if g.chance(1, 8) {
				m = append(m, unrelated(outer))
			}
			add(m...)
		}
		// re-creation
		switch g.pick(10) {
		case 0, 1: // sibling only
			if sb, ok := sibling(); ok {
				add(sb)
			} else {
				add(leafOp())
			}
		case 2: // both
			m := []MOp{leafOp()}
			if sb, ok := sibling(); ok {
				m = append(m, sb)
			}
			add(m...)
		case 3: // nothing re-created in this round
		default:
			add(leafOp())
		}
		if g.chance(4, 5) {
			add(unrelated(outer))
		}
		if g.chance(1, 4) {
			ops = append(ops, ClientOp{Kind: "rollback", WaitFor: len(ops) - 1, Of: len(ops) - 1})
		}
	}
	if len(ops) > maxSets {
		ops = ops[:maxSets]
	}
	return ops
}

// swarmExtras draws two further swarm dimensions (added in wave 5) AFTER everything else of a plan, so that the plans of
// runs that do not draw them stay exactly what they were: persistent targets (the topo Configurable says the device keeps
// its configuration: no re-synchronisation, state PERSISTED; such a device never restarts empty, so dev-restart faults
// aimed at it are dropped) and failing onos-topo calls of the reconcilers (fail without effect / take effect with the
// answer lost).
func (g *Gen) swarmExtras(p *Plan, persistent, topo bool) {
	if persistent && g.chance(1, 4) {
		p.Knobs.Persistent = map[string]bool{}
		for _, t := range p.Knobs.Targets {
			if g.chance(1, 2) {
				p.Knobs.Persistent[t] = true
			}
		}
		if len(p.Knobs.Persistent) > 0 {
			p.Profile += "+persistent"
			var fs []Fault
			for _, f := range p.Faults {
				if f.Kind == "dev-restart" && p.Knobs.Persistent[f.Target] {
					continue
				}
				fs = append(fs, f)
			}
			p.Faults = fs
			if p.Knobs.Resync != nil && p.Knobs.Persistent[p.Knobs.Resync.Target] {
				p.Knobs.Resync = nil
			}
		}
	}
	if persistent && g.chance(1, 5) {
		// capability validation before every apply (another aspect of the topo entity nobody generated before)
		p.Knobs.ValidateCaps = map[string]bool{}
		for _, t := range p.Knobs.Targets {
			if g.chance(1, 2) {
				p.Knobs.ValidateCaps[t] = true
			}
		}
		if len(p.Knobs.ValidateCaps) > 0 {
			p.Profile += "+validate-caps"
		}
	}
	if persistent && g.chance(1, 4) {
		// a second model: some targets are of another type, or of another version of the same type; its plugin rejects
		// another token. Poisoned values are rewritten to the token of their target's model most of the time, and now and
		// then to the other model's token (which the right plugin accepts)
		p.Knobs.ModelB = map[string][2]string{}
		mb := [2]string{ModelName, "2.0.0"}
		if g.chance(1, 2) {
			mb = [2]string{"othersim", ModelVersion}
		}
		for _, t := range p.Knobs.Targets {
			if g.chance(1, 2) {
				p.Knobs.ModelB[t] = mb
			}
		}
		if len(p.Knobs.ModelB) == 0 {
			p.Knobs.ModelB = nil
		} else {
			p.Profile += "+two-models"
			for i := range p.Scenario {
				for _, t := range p.Knobs.Targets { // (never range over the map: the draws below must not depend on its order)
					ops := p.Scenario[i].Targets[t]
					_, isB := p.Knobs.ModelB[t]
					for j := range ops {
						if !strings.Contains(ops[j].V, PoisonValue) {
							continue
						}
						if (isB && !g.chance(1, 4)) || (!isB && g.chance(1, 8)) {
							ops[j].V = strings.Replace(ops[j].V, PoisonValue, PoisonValueB, 1)
						}
					}
				}
			}
		}
	}
	if persistent && p.Property != "C09" && g.chance(1, 5) {
		// SERIALIZABLE isolation outside C09's profile (which draws it itself): possible since the wake-up defect behind a
		// serializable predecessor was repaired in round 2 - before that it was confined to C09 so that the recorded
		// finding could not surface under another property's id
		n := 0
		for i := range p.Scenario {
			if p.Scenario[i].Kind == "set" && g.chance(1, 3) {
				p.Scenario[i].Serial = true
				n++
			}
		}
		if n > 0 {
			p.Profile += "+serializable"
		}
	}
	if topo && g.chance(1, 5) {
		p.Profile += "+topo-faults"
		for i := 0; i <= g.pick(3); i++ {
			p.Faults = append(p.Faults, Fault{Kind: []string{"topo-unavail", "topo-acklost"}[g.pick(2)], On: "topo", N: 1 + g.pick(80), Burst: 1 + g.pick(3)})
		}
	}
}

// RollbackChainScenario draws what a client that uses rollback as an undo stack does (round 2): a few changes (some of
// them rejected by the model), then the changes are rolled back from the latest live one backwards, with a new change or
// an out-of-turn request now and then. Every request waits for the one before, so the log order is the scenario order.
// Random scenarios almost never contain two successful rollbacks in a row with a refused or rolled-back entry in between,
// which is where the bookkeeping of "the change a rollback returns to" shows.
func (g *Gen) RollbackChainScenario(targets []string) []ClientOp {
	ts := targets
	if len(ts) > 2 {
		ts = ts[:2]
	}
	if g.chance(2, 3) {
		ts = ts[:1]
	}
	var ops []ClientOp
	var live, sets []int
	addSet := func(poison bool) {
		op := ClientOp{Kind: "set", WaitFor: len(ops) - 1, Targets: map[string][]MOp{}, Async: g.chance(1, 3)}
		sub := ts
		if len(ts) == 2 && g.chance(1, 2) {
			sub = []string{ts[g.pick(2)]}
		}
		for j, t := range sub {
			op.Targets[t] = g.RandOps(2, 35, poison && j == 0)
		}
		sets = append(sets, len(ops))
		if !poison {
			live = append(live, len(ops))
		}
		ops = append(ops, op)
	}
	n := 2 + g.pick(3)
	for i := 0; i < n; i++ {
		addSet(i > 0 && g.chance(1, 4))
	}
	m := 2 + g.pick(4)
	for i := 0; i < m; i++ {
		switch r := g.pick(10); {
		case r < 6 && len(live) > 0:
			of := live[len(live)-1]
			live = live[:len(live)-1]
			ops = append(ops, ClientOp{Kind: "rollback", Of: of, WaitFor: len(ops) - 1})
		case r < 8:
			of := sets[g.pick(len(sets))]
			if len(live) > 0 && live[len(live)-1] == of {
				live = live[:len(live)-1]
			}
			ops = append(ops, ClientOp{Kind: "rollback", Of: of, WaitFor: len(ops) - 1})
		default:
			addSet(g.chance(1, 5))
		}
	}
	return ops
}
