package sim

import "fmt"

// ScenOpts tunes the generic scenario generator.
type ScenOpts struct {
	MinTx, MaxTx   int
	MaxOps         int
	PoisonPct      int
	DelPct         int
	RollbackPct    int
	BadRollbackPct int // of rollbacks: target something other than the latest change / a missing index
	AsyncPct       int
	SerialPct      int
	MultiPct       int // sets naming several targets
	PipelinePct    int // run-level: all ops in flight at once
	DevRejectPct   int // sets containing a value the device refuses (only meaningful with RejectDev)
}

// Scenario draws a client scenario.
func (g *Gen) Scenario(o ScenOpts, targets []string) []ClientOp {
	n := o.MinTx + g.pick(o.MaxTx-o.MinTx+1)
	pipelined := g.R.Intn(100) < o.PipelinePct
	var ops []ClientOp
	var setPos []int
	for i := 0; i < n; i++ {
		wait := -1
		if !pipelined && i > 0 && g.chance(2, 3) {
			wait = i - 1
		}
		if len(setPos) > 0 && g.R.Intn(100) < o.RollbackPct {
			op := ClientOp{Kind: "rollback", WaitFor: wait}
			if g.R.Intn(100) < o.BadRollbackPct {
				switch g.pick(3) {
				case 0:
					op.Of, op.Raw = -1, uint64(50+g.pick(5)) // missing index
				case 1:
					op.Of = setPos[g.pick(len(setPos))] // any earlier set, maybe not the latest
				default:
					// the index of an earlier rollback (or the first transaction)
					op.Of, op.Raw = -1, uint64(1+g.pick(i+1))
				}
			} else {
				op.Of = setPos[len(setPos)-1]
			}
			if op.Of >= 0 {
				// the client needs the Set's answer to know its index
				if op.WaitFor < op.Of {
					op.WaitFor = op.Of
				}
			}
			ops = append(ops, op)
			continue
		}
		op := ClientOp{Kind: "set", WaitFor: wait, Targets: map[string][]MOp{}}
		op.Async = g.R.Intn(100) < o.AsyncPct
		op.Serial = g.R.Intn(100) < o.SerialPct
		nt := 1
		if len(targets) > 1 && g.R.Intn(100) < o.MultiPct {
			nt = 2 + g.pick(len(targets)-1)
		}
		perm := g.R.Perm(len(targets))
		poisonAt := -1
		if g.R.Intn(100) < o.PoisonPct {
			poisonAt = g.pick(nt)
		}
		for j := 0; j < nt; j++ {
			t := targets[perm[j]]
			tops := g.RandOps(o.MaxOps, o.DelPct, j == poisonAt)
			if g.R.Intn(100) < o.DevRejectPct {
				g.vseq++
				tops = append(tops, MOp{P: Path{{Name: "cont1a"}, {Name: "cont2ab"}, {Name: "leaf2c"}}, V: fmt.Sprintf("s:%s%d", DevRejectValue, g.vseq)})
				tops = dedupOps(tops)
			}
			op.Targets[t] = tops
		}
		op.Prefix = nt == 1 && g.chance(1, 3)
		setPos = append(setPos, i)
		ops = append(ops, op)
	}
	return ops
}

func dedupOps(ops []MOp) []MOp {
	seen := map[string]bool{}
	var out []MOp
	for i := len(ops) - 1; i >= 0; i-- {
		k := fmt.Sprintf("%v|%s", ops[i].Del, ops[i].P.K())
		if !ops[i].Del && seen["false|"+ops[i].P.K()] {
			continue
		}
		seen[k] = true
		out = append([]MOp{ops[i]}, out...)
	}
	// drop updates whose path is also deleted in the same request
	dels := map[string]bool{}
	for _, o := range out {
		if o.Del {
			dels[o.P.K()] = true
		}
	}
	var res []MOp
	for _, o := range out {
		if !o.Del && dels[o.P.K()] {
			continue
		}
		res = append(res, o)
	}
	return res
}

// RandSched draws a scheduling policy.
func (g *Gen) RandSched() Sched {
	s := Sched{Seed: g.R.Uint64()}
	switch g.pick(6) {
	case 0:
		s.Policy = "fifo"
	case 1, 2:
		s.Policy = "rand"
	case 3:
		s.Policy = "rtc"
		s.P = []int{0, 1, 4}[g.pick(3)]
	default:
		s.Policy = "starve"
		cands := []string{"rec/transaction", "rec/proposal", "rec/configuration", "rec/mastership", "rec/connection",
			"ev/transactions", "ev/proposals", "ev/configurations", "ev/topo", "ev/conns", "op/transactions/get/tx", "cli/", "val/"}
		s.Starve = cands[g.pick(len(cands))]
		if g.chance(1, 4) {
			s.Starve += "," + cands[g.pick(len(cands))]
		}
	}
	return s
}

// RandTargets draws 1..3 target names.
func (g *Gen) RandTargets(max int) []string {
	all := []string{"t1", "t2", "t3"}
	n := 1 + g.pick(max)
	return all[:n]
}
