package sim

// Reference model (independent of /repo's path/tree utilities): configuration trees keyed by structured paths, gNMI Set
// semantics at path-element boundaries, log fold with validation verdicts, rollback, device fold.

import (
	"fmt"
	"sort"
	"strings"

	"github.com/openconfig/gnmi/proto/gnmi"
)

// PElem is one path element: a name and its list keys (sorted by key name).
type PElem struct {
	Name string
	Keys [][2]string
}

// Path is a structured path.
type Path []PElem

// K renders an unambiguous internal map key (never compared with the repository's textual paths).
func (p Path) K() string {
	var sb strings.Builder
	for _, e := range p {
		sb.WriteByte(0x1f)
		sb.WriteString(e.Name)
		for _, kv := range e.Keys {
			sb.WriteByte(0x1e)
			sb.WriteString(kv[0])
			sb.WriteByte(0x1d)
			sb.WriteString(kv[1])
		}
	}
	return sb.String()
}

// String renders for humans.
func (p Path) String() string {
	var sb strings.Builder
	for _, e := range p {
		sb.WriteString("/" + e.Name)
		for _, kv := range e.Keys {
			fmt.Fprintf(&sb, "[%s=%s]", kv[0], kv[1])
		}
	}
	if sb.Len() == 0 {
		return "/"
	}
	return sb.String()
}

// elemMatches reports whether query element q selects element e: equal names and every key named by q present and equal
// ("*" as a key value or as a name selects anything).
func elemMatches(q, e PElem) bool {
	if q.Name != "*" && q.Name != e.Name {
		return false
	}
	for _, qk := range q.Keys {
		found := false
		for _, ek := range e.Keys {
			if ek[0] == qk[0] {
				found = qk[1] == "*" || ek[1] == qk[1]
				break
			}
		}
		if !found {
			return false
		}
	}
	return true
}

// HasPrefix reports whether q is an element-wise prefix of p. The element "..." in q matches any number of elements.
func (p Path) HasPrefix(q Path) bool {
	return matchFrom(q, p)
}

func matchFrom(q, p Path) bool {
	if len(q) == 0 {
		return true
	}
	if q[0].Name == "..." {
		for i := 0; i <= len(p); i++ {
			if matchFrom(q[1:], p[i:]) {
				return true
			}
		}
		return false
	}
	if len(p) == 0 {
		return false
	}
	if !elemMatches(q[0], p[0]) {
		return false
	}
	return matchFrom(q[1:], p[1:])
}

// PathFromGNMI converts (prefix, path) to a structured path.
func PathFromGNMI(ps ...*gnmi.Path) Path {
	var out Path
	for _, gp := range ps {
		if gp == nil {
			continue
		}
		for _, e := range gp.Elem {
			pe := PElem{Name: e.Name}
			for k, v := range e.Key {
				pe.Keys = append(pe.Keys, [2]string{k, v})
			}
			sort.Slice(pe.Keys, func(i, j int) bool { return pe.Keys[i][0] < pe.Keys[j][0] })
			out = append(out, pe)
		}
	}
	return out
}

// ToGNMI converts to a gNMI path.
func (p Path) ToGNMI(target string) *gnmi.Path {
	gp := &gnmi.Path{Target: target}
	for _, e := range p {
		ge := &gnmi.PathElem{Name: e.Name}
		if len(e.Keys) > 0 {
			ge.Key = map[string]string{}
			for _, kv := range e.Keys {
				ge.Key[kv[0]] = kv[1]
			}
		}
		gp.Elem = append(gp.Elem, ge)
	}
	return gp
}

// Leaf is one configured leaf.
type Leaf struct {
	P Path
	V string // canonical typed value, e.g. "s:abc", "u:12", "b:true"
}

// Tree is a set of leaves keyed by Path.K().
type Tree map[string]Leaf

// Clone copies the tree.
func (t Tree) Clone() Tree {
	c := make(Tree, len(t))
	for k, v := range t {
		c[k] = v
	}
	return c
}

// Set sets a leaf.
func (t Tree) Set(p Path, v string) { t[p.K()] = Leaf{P: p, V: v} }

// Delete removes the addressed node and everything beneath it, at element boundaries.
func (t Tree) Delete(q Path) {
	for k, l := range t {
		if l.P.HasPrefix(q) {
			delete(t, k)
		}
	}
}

// Sub returns the leaves selected by query q.
func (t Tree) Sub(q Path) Tree {
	out := Tree{}
	for k, l := range t {
		if l.P.HasPrefix(q) {
			out[k] = l
		}
	}
	return out
}

// Equal compares two trees.
func (t Tree) Equal(o Tree) bool {
	if len(t) != len(o) {
		return false
	}
	for k, v := range t {
		if w, ok := o[k]; !ok || w.V != v.V {
			return false
		}
	}
	return true
}

// Diff describes the difference (for messages): "+" only in o, "-" only in t, "~" different value.
func (t Tree) Diff(o Tree) string {
	var out []string
	for k, v := range t {
		if w, ok := o[k]; !ok {
			out = append(out, fmt.Sprintf("-%s=%s", v.P, v.V))
		} else if w.V != v.V {
			out = append(out, fmt.Sprintf("~%s: %s vs %s", v.P, v.V, w.V))
		}
	}
	for k, w := range o {
		if _, ok := t[k]; !ok {
			out = append(out, fmt.Sprintf("+%s=%s", w.P, w.V))
		}
	}
	sort.Strings(out)
	if len(out) > 12 {
		out = append(out[:12], fmt.Sprintf("… %d more", len(out)-12))
	}
	return strings.Join(out, ", ")
}

// String lists the leaves.
func (t Tree) String() string {
	var out []string
	for _, l := range t {
		out = append(out, fmt.Sprintf("%s=%s", l.P, l.V))
	}
	sort.Strings(out)
	return "{" + strings.Join(out, ", ") + "}"
}

// MOp is one operation of a Set on one target.
type MOp struct {
	Del bool   `json:"del,omitempty"`
	P   Path   `json:"p"`
	V   string `json:"v,omitempty"`
}

// ApplyOps applies one request's operations for one target with gNMI semantics: deletes first, then updates.
func (t Tree) ApplyOps(ops []MOp) {
	for _, o := range ops {
		if o.Del {
			t.Delete(o.P)
		}
	}
	for _, o := range ops {
		if !o.Del {
			t.Set(o.P, o.V)
		}
	}
}

// PoisonValue marks a document invalid for the fake model plugin (content-based verdict).
const PoisonValue = "POISON"

// PoisonValueB is what the second synthetic model (Knobs.ModelB) rejects instead: each model accepts the other's token, so
// a document validated by the wrong target's plugin gets the wrong verdict.
const PoisonValueB = "VENOM"

// runModelB holds the targets of the current run that use the second model (set by NewSys; a worker process executes one
// run at a time).
var runModelB = map[string][2]string{}

// PoisonFor returns the token the model plugin of that target's type and version rejects.
func PoisonFor(target string) string {
	if _, ok := runModelB[target]; ok {
		return PoisonValueB
	}
	return PoisonValue
}

// ModelOf returns (type, version) of a target in the current run.
func ModelOf(target string) (string, string) {
	if m, ok := runModelB[target]; ok {
		return m[0], m[1]
	}
	return ModelName, ModelVersion
}

// InvalidFor reports the plugin rule: a candidate containing a live leaf with the model's poison token is invalid.
func (t Tree) InvalidFor(token string) bool {
	for _, l := range t {
		if strings.Contains(l.V, token) {
			return true
		}
	}
	return false
}

// GnmiValueCanon renders a gNMI typed value canonically ("s:", "u:", "i:", "b:", "y:", "f:", "d:", "l:" prefixes).
func GnmiValueCanon(v *gnmi.TypedValue) string {
	if v == nil {
		return "nil"
	}
	switch x := v.Value.(type) {
	case *gnmi.TypedValue_StringVal:
		return "s:" + x.StringVal
	case *gnmi.TypedValue_UintVal:
		return fmt.Sprintf("u:%d", x.UintVal)
	case *gnmi.TypedValue_IntVal:
		return fmt.Sprintf("i:%d", x.IntVal)
	case *gnmi.TypedValue_BoolVal:
		return fmt.Sprintf("b:%v", x.BoolVal)
	case *gnmi.TypedValue_BytesVal:
		return fmt.Sprintf("y:%x", x.BytesVal)
	case *gnmi.TypedValue_FloatVal:
		return fmt.Sprintf("f:%v", x.FloatVal)
	case *gnmi.TypedValue_DoubleVal:
		return fmt.Sprintf("f:%v", x.DoubleVal)
	case *gnmi.TypedValue_DecimalVal:
		return fmt.Sprintf("d:%d/%d", x.DecimalVal.Digits, x.DecimalVal.Precision)
	case *gnmi.TypedValue_LeaflistVal:
		var parts []string
		for _, e := range x.LeaflistVal.Element {
			parts = append(parts, GnmiValueCanon(e))
		}
		return "l:[" + strings.Join(parts, ",") + "]"
	case *gnmi.TypedValue_JsonVal:
		return "json:" + string(x.JsonVal)
	case *gnmi.TypedValue_JsonIetfVal:
		return "json:" + string(x.JsonIetfVal)
	case *gnmi.TypedValue_AsciiVal:
		return "a:" + x.AsciiVal
	}
	return fmt.Sprintf("?:%v", v)
}
