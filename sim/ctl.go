package sim

// Work-set controller runtime: stub of onos-lib-go's controller. Real Watchers feed it, real Reconcilers are run by it as
// scheduler-released tasks, one at a time per partition; errors re-queue after a back-off on the fake clock;
// Result.Requeue re-queues into the same controller.

import (
	"context"
	"fmt"
	"sort"
	"sync"
	"time"

	"github.com/onosproject/onos-lib-go/pkg/controller"
)

type pendItem struct {
	id      controller.ID
	attempt int
}

// Ctl is one controller.
type Ctl struct {
	Name    string
	k       *Kernel
	inc     context.Context
	rec     controller.Reconciler
	part    func(controller.ID) string
	mu      sync.Mutex
	pending map[string][]pendItem
	running map[string]string
	timers  int
	Recs    int
	Errs    int
	// OnStart/OnDone let monitors bracket a reconcile task.
	OnStart func(task string, id controller.ID)
	OnDone  func(task string, id controller.ID, res controller.Result, err error)
}

// NewCtl creates a controller runtime bound to an incarnation.
func NewCtl(k *Kernel, inc context.Context, name string, rec controller.Reconciler, part func(controller.ID) string) *Ctl {
	if part == nil {
		part = func(controller.ID) string { return "" }
	}
	c := &Ctl{Name: name, k: k, inc: inc, rec: rec, part: part, pending: map[string][]pendItem{}, running: map[string]string{}}
	k.AddSource("ctl-"+name, c.actions)
	return c
}

// IDKey renders a controller id canonically.
func (c *Ctl) IDKey(id controller.ID) string {
	return c.k.Canon(fmt.Sprint(id.Value))
}

// Enqueue adds an id to its partition's work-set (more than two pending copies of one id are coalesced).
func (c *Ctl) Enqueue(id controller.ID) { c.enqueue(id, 0) }

func (c *Ctl) enqueue(id controller.ID, attempt int) {
	if c.inc.Err() != nil {
		return
	}
	p := c.part(id)
	c.mu.Lock()
	defer c.mu.Unlock()
	n := 0
	for _, q := range c.pending[p] {
		if q.id.Value == id.Value {
			n++
		}
	}
	if n >= 2 {
		return
	}
	c.pending[p] = append(c.pending[p], pendItem{id: id, attempt: attempt})
}

// Watch starts a real watcher and drains it into the work-set.
func (c *Ctl) Watch(w controller.Watcher) error {
	ch := make(chan controller.ID)
	if err := w.Start(ch); err != nil {
		return err
	}
	go func() {
		for {
			select {
			case id, ok := <-ch:
				if !ok {
					return
				}
				c.Enqueue(id)
			case <-c.inc.Done():
				return
			}
		}
	}()
	return nil
}

// Idle reports whether nothing is pending, running or waiting for a retry timer.
func (c *Ctl) Idle() bool {
	c.mu.Lock()
	defer c.mu.Unlock()
	if c.timers > 0 || len(c.running) > 0 {
		return false
	}
	for _, p := range c.pending {
		if len(p) > 0 {
			return false
		}
	}
	return true
}

// Pending returns the number of queued ids.
func (c *Ctl) Pending() int {
	c.mu.Lock()
	defer c.mu.Unlock()
	n := 0
	for _, p := range c.pending {
		n += len(p)
	}
	return n
}

func backoff(attempt int) time.Duration {
	d := 10 * time.Millisecond
	for i := 0; i < attempt && d < 5*time.Second; i++ {
		d *= 2
	}
	if d > 5*time.Second {
		d = 5 * time.Second
	}
	return d
}

func (c *Ctl) actions() []Action {
	if c.inc.Err() != nil {
		return nil
	}
	c.mu.Lock()
	defer c.mu.Unlock()
	var acts []Action
	parts := make([]string, 0, len(c.pending))
	for p := range c.pending {
		parts = append(parts, p)
	}
	sort.Strings(parts)
	for _, p := range parts {
		if _, busy := c.running[p]; busy {
			continue
		}
		seen := map[string]bool{}
		for _, it := range c.pending[p] {
			key := fmt.Sprintf("rec/%s/%s/%s", c.Name, p, c.IDKey(it.id))
			if seen[key] {
				continue
			}
			seen[key] = true
			p, it := p, it
			task := fmt.Sprintf("%s~%d", key, c.Recs+1)
			acts = append(acts, Action{Key: key, Task: task, Fire: func() { c.start(p, it, task) }})
		}
	}
	return acts
}

func (c *Ctl) start(p string, it pendItem, task string) {
	c.mu.Lock()
	lst := c.pending[p]
	for j, q := range lst {
		if q.id.Value == it.id.Value {
			c.pending[p] = append(append([]pendItem{}, lst[:j]...), lst[j+1:]...)
			break
		}
	}
	if len(c.pending[p]) == 0 {
		delete(c.pending, p)
	}
	c.running[p] = task
	c.Recs++
	c.mu.Unlock()
	if c.OnStart != nil {
		c.OnStart(task, it.id)
	}
	go func() {
		res, err := c.rec.Reconcile(it.id)
		if c.inc.Err() != nil {
			return
		}
		c.mu.Lock()
		delete(c.running, p)
		if err != nil {
			c.Errs++
		}
		c.mu.Unlock()
		if c.OnDone != nil {
			c.OnDone(task, it.id, res, err)
		}
		if err != nil {
			c.mu.Lock()
			c.timers++
			c.mu.Unlock()
			att := it.attempt
			c.k.After(backoff(att), fmt.Sprintf("retry/%s/%s", c.Name, c.IDKey(it.id)), func() {
				c.mu.Lock()
				c.timers--
				c.mu.Unlock()
				c.enqueue(it.id, att+1)
			})
		} else if res.Requeue.Value != nil {
			c.Enqueue(res.Requeue)
		}
	}()
}
