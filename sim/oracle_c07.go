package sim

// C07 — a crash between any two store writes loses nothing and repeats nothing. Fault sweep: for a sampled (scenario,
// schedule) the crash-free run is executed once to count its durable effects; the crash (or an ambiguous / failed Atomix
// write) is then placed after effect k for the sampled or all k, singly and in pairs.

import (
	"fmt"
	"testing"

	configapi "github.com/onosproject/onos-api/go/onos/config/v2"
)

// SweepSpec asks the runner to resolve a relative position against the crash-free run of the same plan.
type SweepSpec struct {
	Pos  int    `json:"pos"`  // 0 .. Of-1
	Of   int    `json:"of"`   // number of positions per base
	Kind string `json:"kind"` // crash | crash-pair | acklost+crash | unavail+crash
	Gap  int    `json:"gap"`  // crash-pair: distance of the second crash in effects
}

type c07 struct {
	s *Sys
}

func (m *c07) Name() string { return "C07" }

var c07Cache struct {
	seed    uint64
	effects int
	writes  int
}

func c07Positions(tier string) int {
	if tier == "thorough" {
		return 160
	}
	return 40
}

func init() {
	Profiles["C07"] = &Profile{
		Property: "C07", Engine: "syssim",
		Rule: "non-trivial: the injected crash (or lost / failed Atomix write) hit while at least one logged transaction was not final; distinct = distinct (scenario, schedule, fault position) action-trace hash",
		GenOrd: func(base uint64, ord int, tier string) *Plan {
			P := c07Positions(tier)
			bseed := RunSeed(base, "C07-base", ord/P)
			g := NewGen(bseed)
			p := &Plan{Property: "C07", Profile: "crash-sweep", Seed: bseed}
			p.Knobs.Targets = g.RandTargets(2)
			maxTx := 4
			if tier == "thorough" {
				maxTx = 6
			}
			p.Scenario = g.Scenario(ScenOpts{MinTx: 2, MaxTx: maxTx, MaxOps: 3, PoisonPct: 15, DelPct: 30, RollbackPct: 15, BadRollbackPct: 30,
				AsyncPct: 40, MultiPct: 45, PipelinePct: 60}, p.Knobs.Targets)
			p.Sched = g.RandSched()
			p.Knobs.ConnLate = map[string]bool{}
			for _, t := range p.Knobs.Targets {
				p.Knobs.ConnLate[t] = g.chance(1, 3)
			}
			if g.chance(1, 2) {
				p.Knobs.MapSeed = g.R.Uint64() | 1
			}
			if g.chance(1, 3) {
				// (wave 6) some changes are refused by the device (content rule, predictable): recording a refusal is two
				// store writes as well, and a stop between them must not turn the refusal into a success
				p.Knobs.RejectDev = true
				for i := range p.Scenario {
					op := &p.Scenario[i]
					if op.Kind != "set" || !g.chance(3, 10) {
						continue
					}
					var ts []string
					for _, t := range p.Knobs.Targets {
						if _, ok := op.Targets[t]; ok {
							ts = append(ts, t)
						}
					}
					if len(ts) == 0 {
						continue
					}
					t := ts[g.pick(len(ts))]
					rp := Path{{Name: "cont1a"}, {Name: "cont2ab"}, {Name: "leaf2c"}}
					dup := false
					for _, o := range op.Targets[t] {
						if o.P.K() == rp.K() || (o.Del && len(o.P) <= 2) {
							dup = true
						}
					}
					if !dup {
						g.vseq++
						op.Targets[t] = append(op.Targets[t], MOp{P: rp, V: fmt.Sprintf("s:%s%d", DevRejectValue, g.vseq)})
					}
				}
			}
			pos := ord % P
			gp := NewGen(RunSeed(base, "C07-pos", ord))
			kind := "crash"
			// the property is about the process stopping: Atomix write faults appear only together with a crash (an
			// acknowledgement lost, or a write refused, shortly before the process dies)
			switch gp.pick(10) {
			case 0, 1:
				kind = "crash-pair"
			case 2:
				kind = "acklost+crash"
			case 3:
				kind = "unavail+crash"
			}
			p.Sweep = &SweepSpec{Pos: pos, Of: P, Kind: kind, Gap: 1 + gp.pick(40)}
			return p
		},
		Gen: func(seed uint64, tier string) *Plan { return Profiles["C07"].GenOrd(seed, 0, tier) },
		Arm: func(s *Sys) {
			s.Mon = append(s.Mon, &c07{s: s}, &c02{s: s, as: "C07"}, &overlapProbe{s: s})
		},
		NonTrivial: func(s *Sys) bool { return s.K.Probes["c07-fault-with-nonfinal"] > 0 },
		Run: func(t *testing.T, plan *Plan) *Result {
			prof := Profiles["C07"]
			if plan.Sweep == nil {
				return runSys(t, plan, prof)
			}
			sw := plan.Sweep
			if c07Cache.seed != plan.Seed || c07Cache.effects == 0 {
				basePlan := plan.Clone()
				basePlan.Sweep = nil
				basePlan.Faults = nil
				br := runSys(t, basePlan, prof)
				if br.Harness != "" {
					return br
				}
				if len(br.Viol) > 0 {
					// the crash-free base run already violates the property: report it as it is
					br.Plan = basePlan
					return br
				}
				c07Cache.seed, c07Cache.effects, c07Cache.writes = plan.Seed, br.Effects, br.Stats["atomix-writes"]
			}
			N := c07Cache.effects
			k := 1 + sw.Pos*N/sw.Of
			cp := plan.Clone()
			cp.Sweep = nil
			cp.Profile = "crash-sweep/" + sw.Kind
			switch sw.Kind {
			case "crash":
				cp.Faults = []Fault{{Kind: "crash", On: "effect", N: k}}
			case "crash-pair":
				cp.Faults = []Fault{{Kind: "crash", On: "effect", N: k}, {Kind: "crash", On: "effect", N: k + sw.Gap}}
			case "unavail+crash":
				cp.Faults = []Fault{{Kind: "op-unavail", On: "write", N: k}, {Kind: "crash", On: "effect", N: k + sw.Gap}}
			case "acklost+crash":
				cp.Faults = []Fault{{Kind: "op-acklost", On: "write", N: k}, {Kind: "crash", On: "effect", N: k + sw.Gap}}
			}
			res := runSys(t, cp, prof)
			if res.Extra == nil {
				res.Extra = map[string]string{}
			}
			res.Extra["base_effects"] = fmt.Sprint(N)
			res.Extra["position"] = fmt.Sprint(k)
			return res
		},
	}
}

func (m *c07) probe() {
	r := m.s.Rec
	for i := uint64(1); i <= r.MaxTx; i++ {
		if tx := r.Txs[i]; tx != nil && !TxFinal(tx) {
			m.s.K.Probe("c07-fault-with-nonfinal")
			return
		}
	}
}

func (m *c07) OnCrash() { m.probe() }

func (m *c07) AfterStep() {
	// op faults fire inside the runtime: detect them through the stats
	k := m.s.K
	if n := k.Stats["fault/op-ack-lost"] + k.Stats["fault/op-unavailable"]; n > k.Probes["c07-opfault-seen"] {
		k.Probes["c07-opfault-seen"] = n
		m.probe()
	}
}

func (m *c07) OnCapHit() {
	stuck, shape := m.s.StuckReport()
	m.s.Report("C07", "bounded-liveness", "no-quiescence:"+shape, fmt.Sprintf("after the crash / write fault the system did not become quiescent within %d steps; non-final: %s", m.s.K.StepN, stuck))
}

func (m *c07) AtQuiescence() {
	s := m.s
	r := s.Rec
	// later transactions are not blocked, accepted ones reach a final state
	if stuck, shape := s.StuckReport(); stuck != "" {
		s.Report("C07", "progress", "blocked-after-crash:"+shape, "quiescent after restart but not final: "+stuck)
		return
	}
	for i, c := range s.Calls {
		if c == nil || (!c.Returned && !c.Cut) {
			s.Report("C07", "progress", "request-blocked", fmt.Sprintf("request %d did not complete after the restart", i))
			return
		}
	}
	if len(s.Calls) < len(s.Plan.Scenario) {
		s.Report("C07", "progress", "request-never-started", fmt.Sprintf("only %d of %d requests could start", len(s.Calls), len(s.Plan.Scenario)))
		return
	}
	// every transaction accepted before (or after) the crash has the outcome it would have had without it
	mod := s.PredictedFold()
	for i := uint64(1); i <= r.MaxTx; i++ {
		tx, mt := r.Txs[i], mod.Txs[i]
		if tx == nil || mt == nil {
			continue
		}
		failedBeforeCommit := tx.Status.State == configapi.TransactionStatus_FAILED && tx.Status.Phases.Apply == nil
		if mt.Commit && failedBeforeCommit {
			s.Report("C07", "outcome", "lost", fmt.Sprintf("transaction %d (%s) must be committed but is %s %v", i, mt.Kind, TxPhase(tx), tx.Status.Failure))
		}
		if !mt.Commit && !failedBeforeCommit {
			s.Report("C07", "outcome", "not-refused", fmt.Sprintf("transaction %d (%s) must fail (%s) but is %s", i, mt.Kind, mt.Fail, TxPhase(tx)))
		}
	}
	// nothing merged twice, nothing skipped: stored configuration and devices equal the model
	s.CompareTargets(mod, "C07", "get-vs-model")
	s.CompareDevices(s.DeviceFold(mod), "C07", "device-vs-model")
}
