package sim

// C01 — a multi-target Set is committed on all of its targets or on none.

import (
	"fmt"
	"strings"

	configapi "github.com/onosproject/onos-api/go/onos/config/v2"
)

type c01 struct {
	s *Sys
}

func (m *c01) Name() string { return "C01" }

func propTarget(id string) string { return id[:strings.LastIndex(id, "-")] }

func init() {
	Profiles["C01"] = &Profile{
		Property: "C01", Engine: "syssim",
		Rule: "non-trivial: the run contains a Set naming at least two targets that overlapped with another transaction on one of them, or a multi-target Set of which a strict subset of targets was poisoned, or a crash hit while a multi-target transaction was not final; distinct = distinct action-trace hash",
		Gen: func(seed uint64, tier string) *Plan {
			g := NewGen(seed)
			p := &Plan{Property: "C01", Profile: "multi-target-atomicity", Seed: seed}
			p.Knobs.Targets = []string{"t1", "t2", "t3"}[:2+g.pick(2)]
			maxTx := 5
			if tier == "thorough" {
				maxTx = 8
			}
			p.Scenario = g.Scenario(ScenOpts{MinTx: 2, MaxTx: maxTx, MaxOps: 3, PoisonPct: 35, DelPct: 25, RollbackPct: 8, BadRollbackPct: 30,
				AsyncPct: 40, MultiPct: 85, PipelinePct: 70}, p.Knobs.Targets)
			p.Sched = g.RandSched()
			p.Knobs.ConnLate = map[string]bool{}
			for _, t := range p.Knobs.Targets {
				p.Knobs.ConnLate[t] = g.chance(1, 2)
			}
			if g.chance(1, 2) {
				p.Knobs.MapSeed = g.R.Uint64() | 1
			}
			if g.chance(2, 5) {
				p.Profile = "multi-target-atomicity+crash"
				p.Faults = append(p.Faults, Fault{Kind: "crash", On: "effect", N: 5 + g.pick(120)})
				if g.chance(1, 4) {
					p.Faults = append(p.Faults, Fault{Kind: "crash", On: "effect", N: 20 + g.pick(200)})
				}
			}
			g.swarmExtras(p, true, false)
			return p
		},
		Arm: func(s *Sys) { s.Mon = append(s.Mon, &c01{s: s}, &overlapProbe{s: s}) },
		NonTrivial: func(s *Sys) bool {
			return s.K.Probes["c01-multi-overlap"] > 0 || s.K.Probes["c01-partial-poison"] > 0 || s.K.Probes["c01-crash-mid-multi"] > 0
		},
	}
}

func (m *c01) OnCrash() {
	r := m.s.Rec
	for i := uint64(1); i <= r.MaxTx; i++ {
		if tx := r.Txs[i]; tx != nil && !TxFinal(tx) && len(tx.Status.Proposals) > 1 {
			m.s.K.Probe("c01-crash-mid-multi")
		}
	}
}

// step monitor: values stamped with index i may appear in a committed map only while transaction i is committing
func (m *c01) OnVals(cfgID string, keys []string, w WriteRec) {
	if strings.HasSuffix(cfgID, "-applied") {
		return
	}
	r := m.s.Rec
	for _, k := range keys {
		pv := r.Vals[cfgID][k]
		if pv == nil || pv.Index == 0 {
			continue
		}
		tx := r.Txs[uint64(pv.Index)]
		if tx == nil {
			continue
		}
		if tx.Status.Phases.Commit == nil {
			m.s.Report("C01", "commit-outside-commit-phase", "value-stamped-before-commit",
				fmt.Sprintf("value %s of %s stamped with index %d was written while transaction %d is %s", k, cfgID, pv.Index, pv.Index, TxPhase(tx)))
		}
	}
}

// step monitor: once a proposal of transaction i failed validation, no proposal of i may enter its commit phase
func (m *c01) OnProp(old, new *configapi.Proposal, w WriteRec) {
	if new.Status.Phases.Commit == nil || (old != nil && old.Status.Phases.Commit != nil) {
		return
	}
	r := m.s.Rec
	for id, p := range r.Props {
		if p.TransactionIndex == new.TransactionIndex && id != string(new.ID) && p.Status.Phases.Validate != nil &&
			p.Status.Phases.Validate.State == configapi.ProposalValidatePhase_FAILED {
			m.s.Report("C01", "commit-after-sibling-failed", "commit-phase-entered",
				fmt.Sprintf("proposal %s entered its commit phase although sibling %s failed validation", new.ID, id))
		}
	}
}

func (m *c01) AtQuiescence() {
	s := m.s
	r := s.Rec
	mod := s.PredictedFold()
	// reach probes
	for i := uint64(1); i <= r.MaxTx; i++ {
		mt := mod.Txs[i]
		if mt == nil || mt.Kind != "change" || len(mt.Targets) < 2 {
			continue
		}
		if s.K.Probes["overlap-on-target"] > 0 {
			s.K.Probe("c01-multi-overlap")
		}
		if mt.Fail == "INVALID" {
			np := 0
			for _, t := range mt.Targets {
				for _, o := range mt.Ops[t] {
					if !o.Del && strings.Contains(o.V, PoisonFor(t)) {
						np++
						break
					}
				}
			}
			if np < len(mt.Targets) {
				s.K.Probe("c01-partial-poison")
			}
		}
	}
	// (1) per transaction: its proposals are committed on all targets or on none
	for i := uint64(1); i <= r.MaxTx; i++ {
		tx := r.Txs[i]
		if tx == nil || !TxFinal(tx) {
			continue // liveness is C09's business
		}
		var committed, not []string
		for _, pid := range tx.Status.Proposals {
			p := r.Props[string(pid)]
			if p != nil && p.Status.Phases.Commit != nil && p.Status.Phases.Commit.State == configapi.ProposalCommitPhase_COMMITTED {
				committed = append(committed, string(pid))
			} else {
				not = append(not, string(pid))
			}
		}
		if len(committed) > 0 && len(not) > 0 {
			s.Report("C01", "partial-commit", "records", fmt.Sprintf("transaction %d (%s) committed on %v but not on %v", i, TxPhase(tx), committed, not))
		}
		// (2) a Set whose share is rejected on any target is reported failed, and an accepted one is not
		mt := mod.Txs[i]
		if mt != nil && mt.Kind == "change" {
			if mt.Fail != "" && tx.Status.State != configapi.TransactionStatus_FAILED {
				s.Report("C01", "verdict", "invalid-not-failed", fmt.Sprintf("transaction %d must fail (%s) but is %s", i, mt.Fail, TxPhase(tx)))
			}
			if mt.Fail == "" && tx.Status.State == configapi.TransactionStatus_FAILED && tx.Status.Phases.Apply == nil {
				s.Report("C01", "verdict", "valid-failed", fmt.Sprintf("transaction %d is valid on every target but failed before commit: %s %v", i, TxPhase(tx), tx.Status.Failure))
			}
			if c := mt.Call; c >= 0 && s.Calls[c] != nil && s.Calls[c].Returned && !s.Calls[c].Cut {
				if mt.Fail != "" && s.Calls[c].Err == nil {
					s.Report("C01", "response", "rejected-but-ok", fmt.Sprintf("Set %d (transaction %d) must be refused (%s) but was answered OK", c, i, mt.Fail))
				}
			}
		}
	}
	// (3) Get of every target equals the model: every named target holds all changes of a request or none
	s.CompareTargets(mod, "C01", "get-vs-model")
}
