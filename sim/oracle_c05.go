package sim

// C05 — nothing becomes configuration without passing the target's model: the document the plugin accepted is, leaf for
// leaf, what becomes readable; rejected Sets change nothing.

import (
	"bytes"
	"fmt"
	"strings"
	"testing"

	configapi "github.com/onosproject/onos-api/go/onos/config/v2"
)

type c05 struct {
	s *Sys
	// step at which Committed.Index of a configuration last changed
	comStep map[string]int
	snap    map[string]map[string]*configapi.PathValue
}

func (m *c05) Name() string { return "C05" }

func init() {
	Profiles["C05"] = &Profile{
		Property: "C05", Engine: "syssim",
		Rule: "non-trivial: at least one proposal committed whose candidate was built on a predecessor's committed result (PrevIndex != 0), or a document crossing the 100 kB chunk boundary was validated, or a Set was rejected by the plugin; distinct = distinct action-trace hash",
		Gen: func(seed uint64, tier string) *Plan {
			g := NewGen(seed)
			p := &Plan{Property: "C05", Profile: "validated-document", Seed: seed}
			p.Knobs.Targets = g.RandTargets(2)
			maxTx := 5
			if tier == "thorough" {
				maxTx = 8
			}
			p.Scenario = g.Scenario(ScenOpts{MinTx: 2, MaxTx: maxTx, MaxOps: 4, PoisonPct: 25, DelPct: 30, RollbackPct: 10, BadRollbackPct: 20,
				AsyncPct: 40, MultiPct: 40, PipelinePct: 70}, p.Knobs.Targets)
			if g.chance(1, 6) {
				// histories piled onto one sub-tree: the candidate has to be built from tombstones and live values the way the
				// commit merges them
				p.Profile = "validated-document+ladder"
				p.Scenario = g.LadderScenario(p.Knobs.Targets[0], maxTx+5)
			}
			if g.chance(1, 8) {
				// documents below, at and above the 100 000 byte chunk size: a few large string leaves
				p.Profile = "validated-document+large"
				sizes := []int{30000, 49000, 50000, 60000, 99900, 100000, 100100}
				for i := range p.Scenario {
					op := &p.Scenario[i]
					if op.Kind != "set" || !g.chance(1, 2) {
						continue
					}
					for t := range op.Targets {
						g.vseq++
						sz := sizes[g.pick(len(sizes))] - g.pick(3)*37
						v := fmt.Sprintf("s:big%d-", g.vseq) + strings.Repeat("x", sz)
						op.Targets[t] = dedupOps(append(op.Targets[t], MOp{P: Path{{Name: "cont1b"}, {Name: "big"}}, V: v}))
						break
					}
				}
			}
			alignAt := -1
			if g.chance(1, 8) {
				// a document whose size is an exact multiple of the chunk size (or one byte off): the size of a document is
				// only known once the system has built it, so the runner executes the plan once, measures, sizes the marked
				// leaf and runs again (Knobs.Align; the resolved plan is what is recorded)
				p.Profile = "validated-document+aligned"
				var sets []int
				for i := range p.Scenario {
					if p.Scenario[i].Kind == "set" {
						sets = append(sets, i)
					}
				}
				alignAt = sets[g.pick(len(sets))]
				op := &p.Scenario[alignAt]
				for _, t := range sortedKeys(op.Targets) {
					op.Targets[t] = dedupOps(append(op.Targets[t], MOp{P: Path{{Name: "cont1b"}, {Name: "big"}}, V: "s:" + AlignMarker + strings.Repeat("x", 50000)}))
					break
				}
				p.Knobs.Align = &AlignSpec{Pick: g.pick(4), Eps: []int{0, 0, 0, -1, 1}[g.pick(5)], Mult: g.pick(2)}
			}
			p.Sched = g.RandSched()
			if alignAt < 0 && g.chance(1, 4) {
				// a commit is several store writes (path values, then the record that says up to which index they are
				// merged): a write that fails or loses its acknowledgement, or a crash, between them must not make
				// something readable that the plugin never accepted - or drop something it accepted
				p.Profile += "+store-faults"
				for i := 0; i <= g.pick(2); i++ {
					switch g.pick(3) {
					case 0:
						p.Faults = append(p.Faults, Fault{Kind: "crash", On: "effect", N: 5 + g.pick(120)})
					case 1:
						p.Faults = append(p.Faults, Fault{Kind: "op-unavail", On: "write", N: 5 + g.pick(150)})
					default:
						p.Faults = append(p.Faults, Fault{Kind: "op-acklost", On: "write", N: 5 + g.pick(150)})
					}
				}
			}
			p.Knobs.ConnLate = map[string]bool{}
			for _, t := range p.Knobs.Targets {
				p.Knobs.ConnLate[t] = true
			}
			if g.chance(1, 2) {
				p.Knobs.MapSeed = g.R.Uint64() | 1
			}
			g.swarmExtras(p, true, false)
			if g.chance(1, 6) {
				// (wave 6) the plugin cannot be reached or its answer is lost at some validations: no verdict is not an
				// acceptance
				p.Profile += "+plugin-faults"
				for i := 0; i <= g.pick(3); i++ {
					p.Faults = append(p.Faults, Fault{Kind: "val-error", On: "val", N: 1 + g.pick(8)})
				}
			}
			return p
		},
		Run: func(t *testing.T, plan *Plan) *Result {
			prof := Profiles["C05"]
			if plan.Knobs.Align == nil {
				return runSys(t, plan, prof)
			}
			al := plan.Knobs.Align
			pass1 := plan.Clone()
			pass1.Knobs.Align = nil
			r1 := runSys(t, pass1, prof)
			if r1.Harness != "" || len(r1.Viol) > 0 {
				r1.Plan = pass1
				return r1
			}
			var lens []int
			for _, f := range strings.Split(r1.Extra["c05-marker-docs"], ",") {
				var n int
				if _, err := fmt.Sscan(f, &n); err == nil && n > 0 {
					lens = append(lens, n)
				}
			}
			final := plan.Clone()
			final.Knobs.Align = nil
			if len(lens) > 0 {
				const chunk = 100000
				L := lens[al.Pick%len(lens)]
				M := (L + chunk - 1) / chunk * chunk
				M += al.Mult * chunk
				delta := M - L + al.Eps
				for i := range final.Scenario {
					for t, ops := range final.Scenario[i].Targets {
						for j := range ops {
							if strings.HasPrefix(ops[j].V, "s:"+AlignMarker) {
								final.Scenario[i].Targets[t][j].V = ops[j].V + strings.Repeat("x", delta)
							}
						}
					}
				}
			}
			res := runSys(t, final, prof)
			res.Plan = final
			return res
		},
		Arm: func(s *Sys) { s.Mon = append(s.Mon, &c05{s: s, comStep: map[string]int{}}) },
		NonTrivial: func(s *Sys) bool {
			return s.K.Probes["c05-built-on-predecessor"] > 0 || s.K.Probes["c05-chunked-document"] > 0 || s.K.Probes["c05-plugin-rejected"] > 0
		},
	}
}

// FillExtra reports the sizes of the validated documents that contain the alignment marker, and counts documents that are
// an exact multiple of the chunk size.
func (m *c05) FillExtra(x map[string]string) {
	var lens []string
	for _, d := range m.s.Plugin.Docs {
		n := 0
		for _, c := range d.Chunks {
			n += c
		}
		if bytes.Contains(d.Bytes, []byte(AlignMarker)) {
			lens = append(lens, fmt.Sprint(len(d.Bytes)))
		}
		_ = n
	}
	x["c05-marker-docs"] = strings.Join(lens, ",")
}

func (m *c05) OnCfg(old, new *configapi.Configuration, w WriteRec) {
	if old == nil || old.Status.Committed.Index != new.Status.Committed.Index {
		m.comStep[string(new.ID)] = w.Step
		// what is readable right after the commit of that index: the value map is written before the record, and no
		// successor can merge before the record says so. (The proposal's own COMMITTED status may land much later - after
		// a failed write and a retry - when successors have merged more; comparing with the values of that later moment
		// was a false alarm of this oracle, found by the thorough tier with store faults.)
		if m.snap == nil {
			m.snap = map[string]map[string]*configapi.PathValue{}
		}
		cp := map[string]*configapi.PathValue{}
		for k, v := range m.s.Rec.Vals[string(new.ID)] {
			cp[k] = v
		}
		m.snap[fmt.Sprintf("%s@%d", new.ID, new.Status.Committed.Index)] = cp
	}
}

// lastDoc returns the last document validated on behalf of the proposal (attributed through the issuing reconcile task).
func (m *c05) lastDoc(pid string) *PluginDoc {
	var last *PluginDoc
	tgt := propTarget(pid)
	prefix := fmt.Sprintf("rec/proposal/%s/%s~", tgt, pid)
	for _, d := range m.s.Plugin.Docs {
		if strings.HasPrefix(d.Task, prefix) {
			last = d
		}
	}
	return last
}

func (m *c05) OnProp(old, new *configapi.Proposal, w WriteRec) {
	if new.Status.Phases.Commit == nil || new.Status.Phases.Commit.State != configapi.ProposalCommitPhase_COMMITTED {
		return
	}
	if old != nil && old.Status.Phases.Commit != nil && old.Status.Phases.Commit.State == configapi.ProposalCommitPhase_COMMITTED {
		return
	}
	s := m.s
	pid := string(new.ID)
	cfgID := CfgID(string(new.TargetID))
	doc := m.lastDoc(pid)
	if doc == nil || !doc.Valid {
		s.Report("C05", "commit-without-validation", "no-accepted-document",
			fmt.Sprintf("proposal %s was committed but the plugin never accepted a document for it (last verdict: %v)", pid, doc))
		return
	}
	if len(doc.Chunks) > 1 {
		s.K.Probe("c05-chunked-document")
	}
	if len(doc.Bytes) > 0 && len(doc.Bytes)%100000 == 0 {
		s.K.Probe("c05-document-exact-chunk-multiple")
	} else if r := len(doc.Bytes) % 100000; len(doc.Bytes) > 1000 && (r == 1 || r == 99999) {
		s.K.Probe("c05-document-one-off-chunk-multiple")
	}
	if new.Status.PrevIndex != 0 {
		s.K.Probe("c05-built-on-predecessor")
	}
	// (a) the accepted document equals, leaf for leaf, the readable configuration right after the commit
	seen, err := FlattenJSON(doc.Bytes, true)
	if err != nil {
		s.Report("C05", "document", "undecodable", fmt.Sprintf("document validated for %s cannot be flattened along the schema: %v", pid, err))
		return
	}
	vals := s.Rec.Vals[cfgID]
	if sn, ok := m.snap[fmt.Sprintf("%s@%d", cfgID, new.TransactionIndex)]; ok {
		vals = sn
	}
	stored, err := StoredTree(vals)
	if err != nil {
		s.Report("HARNESS", "stored-tree", "parse", err.Error())
		return
	}
	want := WithImpliedKeys(stored)
	if !seen.Equal(want) {
		s.Report("C05", "document-vs-committed", "differs",
			fmt.Sprintf("the document accepted for %s differs from the configuration readable after its commit (- readable only, + document only): %s", pid, want.Diff(seen)))
	}
}

func (m *c05) AtQuiescence() {
	s := m.s
	r := s.Rec
	mod := s.PredictedFold()
	for _, d := range s.Plugin.Docs {
		if !d.Valid {
			s.K.Probe("c05-plugin-rejected")
		}
	}
	for i := uint64(1); i <= r.MaxTx; i++ {
		tx, mt := r.Txs[i], mod.Txs[i]
		if tx == nil || mt == nil || !TxFinal(tx) || mt.Kind != "change" {
			continue
		}
		if mt.Fail == "INVALID" {
			if committedByRecord(tx) {
				s.Report("C05", "rejected-but-committed", "records", fmt.Sprintf("transaction %d must be rejected by the plugin but was committed", i))
			}
			if c := mt.Call; c >= 0 && s.Calls[c] != nil && s.Calls[c].Returned && !s.Calls[c].Cut && s.Calls[c].Err == nil {
				s.Report("C05", "response", "rejected-but-ok", fmt.Sprintf("Set %d (transaction %d) was rejected by the plugin but answered OK", c, i))
			}
		}
	}
	// (b) rejected Sets leave every configuration unchanged; accepted ones are all there
	s.CompareTargets(mod, "C05", "get-vs-model")
}
