package sim

// C08 — every Set and rollback request is answered, and the answer is truthful.

import (
	"fmt"
	"sort"
	"strings"

	configapi "github.com/onosproject/onos-api/go/onos/config/v2"
	"github.com/openconfig/gnmi/proto/gnmi"
	"google.golang.org/grpc/codes"
)

type c08 struct {
	s *Sys
}

func (m *c08) Name() string { return "C08" }

// the gRPC code a caller must see for a recorded failure class (set.go / admin.go map the class through errors.Status)
var classCode = map[configapi.Failure_Type]codes.Code{
	configapi.Failure_UNKNOWN: codes.Unknown, configapi.Failure_CANCELED: codes.Canceled, configapi.Failure_NOT_FOUND: codes.NotFound,
	configapi.Failure_ALREADY_EXISTS: codes.AlreadyExists, configapi.Failure_UNAUTHORIZED: codes.Unauthenticated, configapi.Failure_FORBIDDEN: codes.PermissionDenied,
	configapi.Failure_CONFLICT: codes.FailedPrecondition, configapi.Failure_INVALID: codes.InvalidArgument, configapi.Failure_UNAVAILABLE: codes.Unavailable,
	configapi.Failure_NOT_SUPPORTED: codes.Unimplemented, configapi.Failure_TIMEOUT: codes.DeadlineExceeded, configapi.Failure_INTERNAL: codes.Internal,
}

func init() {
	Profiles["C08"] = &Profile{
		Property: "C08", Engine: "syssim",
		Rule: "non-trivial: at least one handler's watch replay already showed a later stage than PENDING (controllers ran between 'create transaction' and 'subscribe'), or a request failed with a recorded failure class, or a context was cancelled late; distinct = distinct action-trace hash",
		Gen: func(seed uint64, tier string) *Plan {
			g := NewGen(seed)
			p := &Plan{Property: "C08", Profile: "answers", Seed: seed}
			p.Knobs.Targets = g.RandTargets(2)
			p.Knobs.RejectDev = g.chance(1, 4)
			rej := 0
			if p.Knobs.RejectDev {
				rej = 30
			}
			maxTx := 6
			if tier == "thorough" {
				maxTx = 9
			}
			p.Scenario = g.Scenario(ScenOpts{MinTx: 2, MaxTx: maxTx, MaxOps: 3, PoisonPct: 20, DelPct: 30, RollbackPct: 25, BadRollbackPct: 50,
				AsyncPct: 50, MultiPct: 35, PipelinePct: 60, DevRejectPct: rej}, p.Knobs.Targets)
			p.Sched = g.RandSched()
			if g.chance(1, 2) {
				// window policy: hold back the handler's watch registration / replay read and the transaction event stream
				p.Profile = "answers+window"
				p.Sched.Policy = "window"
				p.Sched.Starve = []string{"op/transactions/get/tx", "op/transactions/get/tx,ev/transactions", "op/transactions/get/tx,cli/"}[g.pick(3)]
			}
			if g.chance(1, 5) {
				// the widest window: few asynchronous Sets, the handler's replay read served only when nothing else can run
				p.Profile = "answers+async-window"
				p.Knobs.Targets = []string{"t1"}
				p.Scenario = g.Scenario(ScenOpts{MinTx: 2, MaxTx: 4, MaxOps: 2, PoisonPct: 10, DelPct: 20, AsyncPct: 100, PipelinePct: 100}, p.Knobs.Targets)
				p.Sched.Policy = "window"
				// only a later handler is held back: the store's single dispatcher blocks behind a handler that is still in
				// its replay read, so the first transaction must be able to run ahead and re-queue its successor
				p.Sched.Starve = []string{"op/transactions/get/tx2", "op/transactions/get/tx3", "op/transactions/get/tx2,op/transactions/get/tx3"}[g.pick(3)]
				p.Knobs.RejectDev = false
			}
			if g.chance(1, 4) {
				// the acknowledgement of the handler's "create transaction" is late: the transaction is in the log, its
				// events flow and the controllers work on it while the handler has not even subscribed yet
				p.Profile = "answers+late-ack"
				switch g.pick(3) {
				case 0, 1:
					p.Knobs.LateAck = []string{"transactions/append"}
					p.Sched.Policy = []string{"window", "starve"}[g.pick(2)]
					p.Sched.Starve = []string{"ack/transactions/append", "ack/transactions/append,cli/"}[g.pick(2)]
				default:
					// the answer of the handler's replay read is late: what it read is stale when the handler sees it
					// (reads by id are the handlers'; the controllers read the log by index)
					p.Knobs.LateAck = [][]string{{"transactions/get/tx"}, {"transactions/get/tx", "transactions/append"}}[g.pick(2)]
					p.Sched.Policy = []string{"window", "starve", "rand"}[g.pick(3)]
					p.Sched.Starve = []string{"ack/transactions/get/tx", "ack/transactions"}[g.pick(2)]
				}
			}
			if g.chance(1, 4) {
				p.Knobs.CancelLate = 1 + g.pick(6)
			}
			if g.chance(1, 4) {
				refusals := []codes.Code{codes.InvalidArgument, codes.Internal, codes.Unknown, codes.NotFound, codes.AlreadyExists, codes.FailedPrecondition, codes.Unimplemented, codes.Unauthenticated}
				p.Faults = append(p.Faults, Fault{Kind: "dev-error", On: "devset", Target: p.Knobs.Targets[g.pick(len(p.Knobs.Targets))], N: 1 + g.pick(4), Code: int(refusals[g.pick(len(refusals))])})
			}
			if g.chance(1, 2) {
				p.Knobs.MapSeed = g.R.Uint64() | 1
			}
			if g.chance(1, 4) {
				// a second client watches the transaction of a waiting request by id (the handlers share the store's
				// watcher tables)
				p.Profile += "+observer"
				for i, op := range p.Scenario {
					if (op.Kind == "set" || op.Kind == "rollback") && g.chance(1, 2) {
						p.Knobs.Observers = append(p.Knobs.Observers, i)
					}
				}
			}
			g.swarmExtras(p, true, false)
			return p
		},
		Arm: func(s *Sys) { s.Mon = append(s.Mon, &c08{s: s}) },
		NonTrivial: func(s *Sys) bool {
			return s.K.Probes["c08-replay-past-pending"] > 0 || s.K.Probes["c08-failed-with-class"] > 0 || s.K.Probes["c08-late-cancel"] > 0
		},
	}
}

// the record of the transaction a call created, as of now
func (m *c08) txOf(c *Call) *configapi.Transaction {
	s := m.s
	if c.TxIndex != 0 {
		return s.Rec.Txs[c.TxIndex]
	}
	s.MapCalls()
	if idx, ok := s.callIndex[c.N]; ok {
		return s.Rec.Txs[idx]
	}
	return nil
}

func (m *c08) OnReturn(c *Call) {
	s := m.s
	if c.Cut || c.Op.Kind == "get" {
		return
	}
	if s.Plan.Knobs.CancelLate > 0 {
		s.K.Probe("c08-late-cancel")
	}
	if c.Err != nil && strings.HasPrefix(c.Err.Error(), "PANIC") {
		s.Report("C08", "handler", "panic", fmt.Sprintf("request %d: %v", c.N, c.Err))
		return
	}
	tx := m.txOf(c)
	if c.Err == nil {
		if tx == nil {
			s.Report("C08", "answer", "ok-without-transaction", fmt.Sprintf("request %d (%s) was answered OK but no stored transaction corresponds to it (index %d)", c.N, c.Op.Kind, c.TxIndex))
			return
		}
		sync := !c.Op.Async || c.Op.Kind == "rollback"
		if sync && tx.Status.State != configapi.TransactionStatus_APPLIED {
			s.Report("C08", "answer", "sync-ok-before-applied", fmt.Sprintf("synchronous request %d was answered OK while transaction %d is %s", c.N, tx.Index, TxPhase(tx)))
		}
		if !sync && !committedByRecord(tx) {
			s.Report("C08", "answer", "async-ok-before-committed", fmt.Sprintf("asynchronous request %d was answered OK while transaction %d is %s", c.N, tx.Index, TxPhase(tx)))
		}
		m.checkResponse(c, tx)
		return
	}
	// an error: either refused before anything was logged, or the recorded failure with its class
	if tx == nil {
		return
	}
	if tx.Status.State != configapi.TransactionStatus_FAILED {
		s.Report("C08", "answer", "error-but-not-failed", fmt.Sprintf("request %d was answered %v while transaction %d is %s", c.N, grpcCode(c.Err), tx.Index, TxPhase(tx)))
		return
	}
	s.K.Probe("c08-failed-with-class")
	if tx.Status.Failure != nil {
		if want, ok := classCode[tx.Status.Failure.Type]; ok && grpcCode(c.Err) != want {
			s.Report("C08", "answer", "wrong-failure-class", fmt.Sprintf("request %d was answered %v but transaction %d failed with class %s (expected %v)", c.N, grpcCode(c.Err), tx.Index, tx.Status.Failure.Type, want))
		}
	}
}

func (m *c08) checkResponse(c *Call, tx *configapi.Transaction) {
	s := m.s
	if c.Op.Kind == "rollback" {
		rb := tx.GetRollback()
		if rb == nil || string(tx.ID) != c.TxID {
			s.Report("C08", "response", "rollback-identity", fmt.Sprintf("rollback response %d names %s/%d which is not a stored rollback", c.N, c.TxID, c.TxIndex))
		}
		return
	}
	if string(tx.ID) != c.TxID || tx.Username != fmt.Sprintf("c%d", c.N) {
		s.Report("C08", "response", "identity", fmt.Sprintf("Set response %d carries id %s index %d, but that transaction belongs to %q (id %s)", c.N, s.K.Canon(c.TxID), c.TxIndex, tx.Username, s.K.Canon(string(tx.ID))))
		return
	}
	// exactly the target/path pairs the request changed, each marked update or delete
	want := map[string]bool{}
	for t, ops := range c.Op.Targets {
		for _, o := range ops {
			op := "UPDATE"
			if o.Del {
				op = "DELETE"
			}
			want[fmt.Sprintf("%s %s %s", t, o.P.String(), op)] = true
		}
	}
	got := map[string]bool{}
	for _, r := range c.SetResp.Response {
		op := "UPDATE"
		if r.Op == gnmi.UpdateResult_DELETE {
			op = "DELETE"
		}
		k := fmt.Sprintf("%s %s %s", r.Path.GetTarget(), PathFromGNMI(r.Path).String(), op)
		if got[k] {
			s.Report("C08", "response", "duplicate-result", fmt.Sprintf("Set response %d lists %s twice", c.N, k))
		}
		got[k] = true
	}
	var diff []string
	for k := range want {
		if !got[k] {
			diff = append(diff, "-"+k)
		}
	}
	for k := range got {
		if !want[k] {
			diff = append(diff, "+"+k)
		}
	}
	if len(diff) > 0 {
		sort.Strings(diff)
		s.Report("C08", "response", "results-differ", fmt.Sprintf("Set response %d does not list exactly what the request changed (- missing, + unexpected): %v", c.N, diff))
	}
}

func (m *c08) OnTx(old, new *configapi.Transaction, w WriteRec) {}

func (m *c08) AtQuiescence() {
	s := m.s
	s.MapCalls()
	// reach probe: handlers whose replay read came after the first status change
	for _, l := range s.K.Trace {
		_ = l
	}
	for i, c := range s.Calls {
		if c == nil {
			if i < len(s.Plan.Scenario) {
				s.Report("C08", "liveness", "request-never-started", fmt.Sprintf("request %d could not start: the request it waits for never returned", i))
			}
			continue
		}
		if c.Returned || c.Cut {
			continue
		}
		tx := m.txOf(c)
		switch {
		case tx == nil:
			s.Report("C08", "liveness", "blocked-without-transaction", fmt.Sprintf("request %d (%s) never returned and no transaction was logged for it", c.N, c.Op.Kind))
		case TxFinal(tx) || (c.Op.Async && c.Op.Kind == "set" && committedByRecord(tx)):
			s.Report("C08", "liveness", "blocked-although-"+strings.ToLower(tx.Status.State.String()),
				fmt.Sprintf("request %d (%s, async=%v) never returned although transaction %d is %s", c.N, c.Op.Kind, c.Op.Async && c.Op.Kind == "set", tx.Index, TxPhase(tx)))
		default:
			// the transaction itself is not final: a liveness problem of the controllers (C09), reported here as it keeps a caller waiting
			s.Report("C08", "liveness", "blocked-transaction-not-final", fmt.Sprintf("request %d never returned; transaction %d is %s", c.N, tx.Index, TxPhase(tx)))
		}
	}
	if len(s.Calls) < len(s.Plan.Scenario) {
		s.Report("C08", "liveness", "request-never-started", fmt.Sprintf("only %d of %d requests could start", len(s.Calls), len(s.Plan.Scenario)))
	}
}
