package sim

// C06 — rolling back the latest change restores exactly the previous state; anything else is refused and alters nothing.

import (
	"fmt"

	configapi "github.com/onosproject/onos-api/go/onos/config/v2"
)

type c06 struct {
	s *Sys
}

func (m *c06) Name() string { return "C06" }

func init() {
	Profiles["C06"] = &Profile{
		Property: "C06", Engine: "syssim",
		Rule: "non-trivial: a rollback was accepted that restored at least one leaf the change had deleted or overwritten, or a rollback request was refused (not the latest change / a rollback / a missing index); distinct = distinct action-trace hash",
		Gen: func(seed uint64, tier string) *Plan {
			g := NewGen(seed)
			p := &Plan{Property: "C06", Profile: "rollback", Seed: seed}
			p.Knobs.Targets = g.RandTargets(3)
			maxTx := 6
			if tier == "thorough" {
				maxTx = 9
			}
			p.Scenario = g.Scenario(ScenOpts{MinTx: 3, MaxTx: maxTx, MaxOps: 4, PoisonPct: 8, DelPct: 45, RollbackPct: 40, BadRollbackPct: 35,
				AsyncPct: 30, MultiPct: 35, PipelinePct: 35}, p.Knobs.Targets)
			if g.chance(1, 6) {
				// rollbacks at the end of ladders of ancestor deletes and re-creations on one sub-tree
				p.Profile = "rollback+ladder"
				p.Scenario = g.LadderScenario(p.Knobs.Targets[0], maxTx+5)
			}
			if g.chance(1, 5) {
				p.Profile = "rollback+chain"
				p.Scenario = g.RollbackChainScenario(p.Knobs.Targets)
			}
			p.Sched = g.RandSched()
			if g.chance(1, 4) {
				// a rollback is initialised, validated and committed in several store writes per target: a write that fails or
				// loses its acknowledgement, or a crash, in between must not leave a rollback done on some targets only
				p.Profile += "+store-faults"
				for i := 0; i <= g.pick(2); i++ {
					if g.chance(1, 2) {
						// ... right after the creation of a proposal: between the per-target proposals of one transaction
						p.Faults = append(p.Faults, Fault{Kind: []string{"crash", "op-unavail", "op-acklost"}[g.pick(3)], On: "after-write", Target: "proposals/insert", N: 2 + g.pick(10), Burst: g.pick(2)})
						continue
					}
					switch g.pick(3) {
					case 0:
						p.Faults = append(p.Faults, Fault{Kind: "crash", On: "effect", N: 5 + g.pick(150)})
					case 1:
						p.Faults = append(p.Faults, Fault{Kind: "op-unavail", On: "write", N: 5 + g.pick(200)})
					default:
						p.Faults = append(p.Faults, Fault{Kind: "op-acklost", On: "write", N: 5 + g.pick(200)})
					}
				}
			}
			p.Knobs.ConnLate = map[string]bool{}
			p.Knobs.NoDevice = map[string]bool{}
			for _, t := range p.Knobs.Targets {
				switch g.pick(3) {
				case 0:
					p.Knobs.ConnLate[t] = true
				case 1:
					p.Knobs.NoDevice[t] = true // connects only in the heal phase: everything is applied late, in order
				}
			}
			if g.chance(1, 2) {
				p.Knobs.MapSeed = g.R.Uint64() | 1
			}
			return p
		},
		Arm: func(s *Sys) { s.Mon = append(s.Mon, &c06{s: s}) },
		NonTrivial: func(s *Sys) bool {
			return s.K.Probes["c06-rollback-restored"] > 0 || s.K.Probes["c06-rollback-refused"] > 0
		},
	}
}

// CompareDevices compares every connected, synchronized device with the model's device tree.
func (s *Sys) CompareDevices(dev map[string]Tree, prop, oracle string, skip ...map[string]bool) {
	for _, t := range s.Plan.Knobs.Targets {
		c := s.Rec.Cfgs[CfgID(t)]
		if c == nil || !s.connUp[t] || (len(skip) > 0 && skip[0][t]) {
			continue
		}
		if s.Plan.Knobs.Persistent[t] {
			// a persistent target keeps its configuration and is never re-synchronised; it never restarts empty here, so at
			// quiescence it holds exactly the changes applied to it
			if c.Status.State != configapi.ConfigurationStatus_PERSISTED {
				continue
			}
		} else if c.Status.State != configapi.ConfigurationStatus_SYNCHRONIZED || c.Status.Applied.Mastership.Term != c.Status.Mastership.Term {
			continue
		}
		want := dev[t]
		if want == nil {
			want = Tree{}
		}
		got := s.Devs[t].State
		if !got.Equal(want) {
			shape := "device-differs"
			if s.beneathRefusedDelete(t, want, got) {
				// a recorded finding has this shape (known-findings.txt): every differing leaf lies beneath a node that a
				// change the device REFUSED had deleted - the stored configuration carries that delete, the device never saw
				// it, and a later rollback (or re-creation) beneath the node pushes the tombstone to the device
				shape = "device-differs:beneath-node-deleted-by-a-refused-change"
			}
			s.Report(prop, oracle, shape, fmt.Sprintf("device %s differs from the model (- expected only, + device only): %s", t, want.Diff(got)))
			return
		}
	}
}

// DeviceFold computes the expected device trees: deltas of committed transactions whose apply the records do not show as
// failed, in log order.
func (s *Sys) DeviceFold(mod *Model) map[string]Tree {
	dev := map[string]Tree{}
	r := s.Rec
	for i := uint64(1); i <= r.MaxTx; i++ {
		mt := mod.Txs[i]
		if mt == nil || !mt.Commit {
			continue
		}
		for _, t := range mt.Targets {
			p := r.Props[fmt.Sprintf("%s-%d", t, i)]
			if p == nil || p.Status.Phases.Apply == nil || p.Status.Phases.Apply.State != configapi.ProposalApplyPhase_APPLIED {
				continue
			}
			if dev[t] == nil {
				dev[t] = Tree{}
			}
			mt.ApplyDelta(t, dev[t])
		}
	}
	return dev
}

func (m *c06) AtQuiescence() {
	s := m.s
	r := s.Rec
	mod := s.PredictedFold()
	for i := uint64(1); i <= r.MaxTx; i++ {
		tx, mt := r.Txs[i], mod.Txs[i]
		if tx == nil || mt == nil || mt.Kind != "rollback" || !TxFinal(tx) {
			continue
		}
		failed := tx.Status.State == configapi.TransactionStatus_FAILED
		call := mt.Call
		if mt.Commit {
			restored := false
			for _, t := range mt.Targets {
				if !mt.Before[t].Equal(mt.After[t]) {
					restored = true
				}
			}
			if restored {
				s.K.Probe("c06-rollback-restored")
			}
			if failed && tx.Status.Phases.Apply == nil {
				s.Report("C06", "legal-rollback-refused", "records", fmt.Sprintf("rollback %d of transaction %d is legal (latest change of all its targets) but failed: %v", i, mt.RollbackOf, tx.Status.Failure))
			}
		} else {
			s.K.Probe("c06-rollback-refused")
			if !failed {
				s.Report("C06", "illegal-rollback-accepted", mt.Fail, fmt.Sprintf("rollback %d of transaction %d must be refused (%s) but is %s", i, mt.RollbackOf, mt.Fail, TxPhase(tx)))
			}
			if call >= 0 && s.Calls[call] != nil && s.Calls[call].Returned && !s.Calls[call].Cut && s.Calls[call].Err == nil {
				s.Report("C06", "response", "illegal-rollback-ok", fmt.Sprintf("rollback request %d (transaction %d of index %d) must be refused (%s) but was answered OK", call, i, mt.RollbackOf, mt.Fail))
			}
		}
	}
	// stored configuration == snapshot semantics of the model (restores values and whole sub-trees)
	s.CompareTargets(mod, "C06", "get-vs-model")
	// devices, once applied
	s.CompareDevices(s.DeviceFold(mod), "C06", "device-vs-model")
}

// beneathRefusedDelete reports whether every leaf in which the device differs from the model lies beneath a node deleted by
// a change of that target whose apply the records show as FAILED.
func (s *Sys) beneathRefusedDelete(t string, want, got Tree) bool {
	mod := s.PredictedFold()
	var dels []Path
	for i, mt := range mod.Txs {
		p := s.Rec.Props[fmt.Sprintf("%s-%d", t, i)]
		if mt == nil || p == nil || p.Status.Phases.Apply == nil || p.Status.Phases.Apply.State != configapi.ProposalApplyPhase_FAILED {
			continue
		}
		for _, o := range mt.Ops[t] {
			if o.Del {
				dels = append(dels, o.P)
			}
		}
	}
	if len(dels) == 0 {
		return false
	}
	under := func(p Path) bool {
		for _, d := range dels {
			if p.HasPrefix(d) {
				return true
			}
		}
		return false
	}
	n := 0
	for k, l := range want {
		if g, ok := got[k]; !ok || g.V != l.V {
			n++
			if !under(l.P) {
				return false
			}
		}
	}
	for k, l := range got {
		if _, ok := want[k]; !ok {
			n++
			if !under(l.P) {
				return false
			}
		}
	}
	return n > 0
}
