#!/bin/bash
# confirm a delivered seed (scratch worktree /tmp/seed<w>-<ID>), run the check(s), remove the worktree; summary to /tmp/w5/result-<name>.txt
#   tools/seedproc.sh <worktree> <name> <PROP> [<PROP>...]
wt=$1; name=$2; shift 2
out=/tmp/w5/result-$name.txt
{
  /verif/tools/seedconfirm.sh "$wt" "$name" 'SeedDemo' 2>&1 | tail -4
  if grep -q '^CONFIRMED' /verif/seeded/$name/confirm.log; then
    /verif/tools/seedrun.sh "$name" "$@" 2>&1 | tail -6
  fi
  git -C /repo worktree remove --force "$wt"
  echo DONE
} > "$out" 2>&1
