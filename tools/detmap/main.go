// detmap rewrites `range` over maps in /repo/pkg into deterministic, seed-permutable iteration (build overlay).
package main

import (
	"bytes"
	"encoding/json"
	"flag"
	"fmt"
	"go/ast"
	"go/parser"
	"go/printer"
	"go/token"
	"go/types"
	"os"
	"path/filepath"
	"strings"

	"golang.org/x/tools/go/ast/astutil"
	"golang.org/x/tools/go/packages"
)

const rtImport = "github.com/onosproject/onos-config/pkg/verifrt"

func simple(e ast.Expr) bool {
	switch x := e.(type) {
	case *ast.Ident:
		return true
	case *ast.SelectorExpr:
		return simple(x.X)
	case *ast.ParenExpr:
		return simple(x.X)
	}
	return false
}

func main() {
	repo := flag.String("repo", "/repo", "")
	out := flag.String("out", "", "output dir")
	rtsrc := flag.String("rt", "", "verifrt source file to add as pkg/verifrt/verifrt.go")
	extra := flag.String("extra", "", "json file with extra overlay entries to merge")
	flag.Parse()
	cfg := &packages.Config{Mode: packages.NeedName | packages.NeedFiles | packages.NeedSyntax | packages.NeedTypes | packages.NeedTypesInfo | packages.NeedImports | packages.NeedDeps,
		Dir: *repo, Env: append(os.Environ(), "GOFLAGS=-mod=mod")}
	pkgs, err := packages.Load(cfg, "./pkg/...")
	if err != nil {
		fmt.Fprintln(os.Stderr, err)
		os.Exit(2)
	}
	overlay := map[string]string{}
	sites := 0
	n := 0
	// Loop-variable semantics follow the repository's go.mod: before go 1.22 a range statement has ONE key and ONE value
	// variable for the whole loop (so `&v` and closures over v alias across iterations). The rewrite must not turn the
	// value into a per-iteration variable, or it would hide exactly that class of defect: for such modules the value
	// variable is declared once in front of the loop and assigned in every iteration.
	sharedLoopVars := false
	if gm, err := os.ReadFile(filepath.Join(*repo, "go.mod")); err == nil {
		for _, l := range strings.Split(string(gm), "\n") {
			f := strings.Fields(l)
			if len(f) == 2 && f[0] == "go" {
				var maj, min int
				fmt.Sscanf(f[1], "%d.%d", &maj, &min)
				sharedLoopVars = maj == 1 && min < 22
			}
		}
	}
	hoisted := 0
	genBlocks := map[*ast.BlockStmt]bool{}
	for _, p := range pkgs {
		if len(p.Errors) > 0 {
			fmt.Fprintln(os.Stderr, "type errors in", p.PkgPath, p.Errors)
			os.Exit(2)
		}
		for fi, f := range p.Syntax {
			_ = fi
			fname := p.Fset.Position(f.Package).Filename
			if strings.HasSuffix(fname, "_test.go") {
				continue
			}
			changed := false
			rel, _ := filepath.Rel(*repo, fname)
			astutil.Apply(f, nil, func(c *astutil.Cursor) bool {
				if ls, ok := c.Node().(*ast.LabeledStmt); ok {
					// a labelled map range that was wrapped in a block: the label goes back onto the loop itself
					if blk, ok := ls.Stmt.(*ast.BlockStmt); ok && genBlocks[blk] {
						last := len(blk.List) - 1
						blk.List[last] = &ast.LabeledStmt{Label: ls.Label, Stmt: blk.List[last]}
						c.Replace(blk)
					}
					return true
				}
				rs, ok := c.Node().(*ast.RangeStmt)
				if !ok {
					return true
				}
				t := p.TypesInfo.TypeOf(rs.X)
				if t == nil {
					return true
				}
				if _, ok := t.Underlying().(*types.Map); !ok {
					return true
				}
				n++
				site := fmt.Sprintf("%s:%d", rel, p.Fset.Position(rs.Pos()).Line)
				mexpr := rs.X
				var pre []ast.Stmt
				isBlank0 := func(e ast.Expr) bool {
					id, ok := e.(*ast.Ident)
					return e == nil || (ok && id.Name == "_")
				}
				needHoist := sharedLoopVars && rs.Tok == token.DEFINE && !isBlank0(rs.Value)
				if !simple(rs.X) || needHoist {
					mid := ast.NewIdent(fmt.Sprintf("verifM%d", n))
					pre = append(pre, &ast.AssignStmt{Lhs: []ast.Expr{mid}, Tok: token.DEFINE, Rhs: []ast.Expr{rs.X}})
					mexpr = mid
				}
				kid := ast.NewIdent(fmt.Sprintf("verifK%d", n))
				okid := ast.NewIdent(fmt.Sprintf("verifOK%d", n))
				vid := ast.NewIdent(fmt.Sprintf("verifV%d", n))
				isBlank := func(e ast.Expr) bool {
					if e == nil {
						return true
					}
					id, ok := e.(*ast.Ident)
					return ok && id.Name == "_"
				}
				var head []ast.Stmt
				loopKey := ast.Expr(kid)
				if rs.Tok == token.DEFINE && !isBlank(rs.Key) {
					loopKey = rs.Key
				}
				// value fetch
				var vlhs ast.Expr = ast.NewIdent("_")
				hoist := false
				if !isBlank(rs.Value) {
					if rs.Tok == token.DEFINE && !sharedLoopVars {
						vlhs = rs.Value
					} else {
						vlhs = vid
						hoist = rs.Tok == token.DEFINE
					}
				}
				head = append(head, &ast.AssignStmt{Lhs: []ast.Expr{vlhs, okid}, Tok: token.DEFINE,
					Rhs: []ast.Expr{&ast.IndexExpr{X: mexpr, Index: loopKey}}})
				head = append(head, &ast.IfStmt{Cond: &ast.UnaryExpr{Op: token.NOT, X: okid}, Body: &ast.BlockStmt{List: []ast.Stmt{&ast.BranchStmt{Tok: token.CONTINUE}}}})
				if hoist {
					// v := verifrt.ZeroV(m) in front of the loop; v = verifVn in every iteration
					pre = append(pre, &ast.AssignStmt{Lhs: []ast.Expr{rs.Value}, Tok: token.DEFINE,
						Rhs: []ast.Expr{&ast.CallExpr{Fun: &ast.SelectorExpr{X: ast.NewIdent("verifrt"), Sel: ast.NewIdent("ZeroV")}, Args: []ast.Expr{mexpr}}}})
					head = append(head, &ast.AssignStmt{Lhs: []ast.Expr{rs.Value}, Tok: token.ASSIGN, Rhs: []ast.Expr{vid}})
					hoisted++
				}
				if rs.Tok == token.ASSIGN {
					if !isBlank(rs.Key) {
						head = append(head, &ast.AssignStmt{Lhs: []ast.Expr{rs.Key}, Tok: token.ASSIGN, Rhs: []ast.Expr{kid}})
					}
					if !isBlank(rs.Value) {
						head = append(head, &ast.AssignStmt{Lhs: []ast.Expr{rs.Value}, Tok: token.ASSIGN, Rhs: []ast.Expr{vid}})
					}
				}
				// the original body keeps a block of its own: a `v := v` in it (the usual cure for a shared loop variable)
				// must open a new scope below the variables the head declares
				body := &ast.BlockStmt{List: append(head, &ast.BlockStmt{List: rs.Body.List})}
				newFor := &ast.RangeStmt{Key: ast.NewIdent("_"), Value: loopKey, Tok: token.DEFINE,
					X: &ast.CallExpr{Fun: &ast.SelectorExpr{X: ast.NewIdent("verifrt"), Sel: ast.NewIdent("Keys")},
						Args: []ast.Expr{mexpr, &ast.BasicLit{Kind: token.STRING, Value: fmt.Sprintf("%q", site)}}},
					Body: body}
				if len(pre) > 0 {
					blk := &ast.BlockStmt{List: append(pre, newFor)}
					genBlocks[blk] = true
					c.Replace(blk)
				} else {
					c.Replace(newFor)
				}
				changed = true
				sites++
				return true
			})
			if !changed {
				continue
			}
			astutil.AddNamedImport(p.Fset, f, "verifrt", rtImport)
			var buf bytes.Buffer
			if err := (&printer.Config{Mode: printer.UseSpaces | printer.TabIndent, Tabwidth: 8}).Fprint(&buf, p.Fset, f); err != nil {
				fmt.Fprintln(os.Stderr, err)
				os.Exit(2)
			}
			// keep stack traces and panic locations close to the original source: anchor every function declaration
			// of the rewritten file at its original line with a //line directive
			var origLines []int
			for _, d := range f.Decls {
				if fd, ok := d.(*ast.FuncDecl); ok {
					origLines = append(origLines, p.Fset.Position(fd.Pos()).Line)
				}
			}
			fset2 := token.NewFileSet()
			if nf, err := parser.ParseFile(fset2, fname, buf.Bytes(), 0); err == nil {
				var newLines []int
				for _, d := range nf.Decls {
					if fd, ok := d.(*ast.FuncDecl); ok {
						newLines = append(newLines, fset2.Position(fd.Pos()).Line)
					}
				}
				if len(newLines) == len(origLines) {
					lines := strings.Split(buf.String(), "\n")
					for i := len(newLines) - 1; i >= 0; i-- {
						at := newLines[i] - 1
						dir := fmt.Sprintf("//line %s:%d", fname, origLines[i])
						lines = append(lines[:at], append([]string{dir}, lines[at:]...)...)
					}
					buf.Reset()
					buf.WriteString(strings.Join(lines, "\n"))
				}
			}
			dst := filepath.Join(*out, strings.ReplaceAll(rel, "/", "__"))
			if err := os.WriteFile(dst, buf.Bytes(), 0644); err != nil {
				fmt.Fprintln(os.Stderr, err)
				os.Exit(2)
			}
			overlay[fname] = dst
		}
	}
	if *rtsrc != "" {
		overlay[filepath.Join(*repo, "pkg/verifrt/verifrt.go")] = *rtsrc
	}
	if *extra != "" {
		b, err := os.ReadFile(*extra)
		if err == nil {
			var e struct{ Replace map[string]string }
			if json.Unmarshal(b, &e) == nil {
				for k, v := range e.Replace {
					overlay[k] = v
				}
			}
		}
	}
	b, _ := json.MarshalIndent(map[string]any{"Replace": overlay}, "", " ")
	os.WriteFile(filepath.Join(*out, "overlay.json"), b, 0644)
	fmt.Printf("detmap: rewrote %d map ranges in %d files (%d value variables kept loop-wide: go.mod < 1.22)\n", sites, len(overlay), hoisted)
}
