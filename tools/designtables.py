#!/usr/bin/env python3
"""Regenerates the measured tables of DESIGN.md (section 13 budgets, section 14 seeded changes) from
/verif/evidence/*.json, /verif/evidence-thorough/*.json (if present) and /verif/seeded/*/meta.json."""
import json, glob, os, re
V = '/verif'
def ev(d, p):
    f = os.path.join(V, d, p + '.json')
    return json.load(open(f)) if os.path.exists(f) else None
props = ['C01','C02','C03','C04','C05','C06','C07','C08','C09','C10','C11','C15','C19','C20']
rows = ['| id | tier | runs | distinct non-trivial | steps | wall s (build s) | runs/hour | faults fired (kinds: total) | known findings |', '|---|---|---|---|---|---|---|---|---|']
for p in props:
    for d in ('evidence', 'evidence-thorough'):
        e = ev(d, p)
        if not e: continue
        c = e['coverage']
        ff = c.get('faults_fired', {})
        rows.append('| %s | %s | %d | %d | %d | %.0f (%.0f) | %.0f | %d: %d | %d |' % (p, e['tier'], c['evaluations'], c['distinct_nontrivial'], c.get('steps', 0),
                    e['wall_s'], c.get('build_s', 0), c.get('runs_per_hour', 0), len(ff), sum(ff.values()), c.get('known_findings_listed', 0)))
budgets = '\n'.join(rows)
rows = ['| seeded change | wave | property | needs | flagged by (quick tier) | signatures | history |', '|---|---|---|---|---|---|---|']
for f in sorted(glob.glob(V + '/seeded/*/meta.json')):
    m = json.load(open(f)); name = f.split('/')[-2]
    fl = []; sg = []
    for p, c in sorted(m['checks'].items()):
        if c['violation_lines'] > 0:
            fl.append(p)
            sg += [re.sub(r':.*', '', s.split('/', 1)[1]) for s in c['signatures']]
    sg = sorted(set(sg))
    rows.append('| `%s` | %d | %s | %s | %s | %s | %s |' % (name, m['wave'], m['property'], m['needs_to_manifest'].replace('|', '/'), ', '.join(fl) or '**none**',
                ', '.join(sg[:4]) + (' …' if len(sg) > 4 else ''), 'missed at first, check strengthened' if m.get('history') else 'flagged at once'))
seeds = '\n'.join(rows)
s = open(V + '/DESIGN.md').read()
s = re.sub(r'<!-- BUDGETS:BEGIN -->.*?<!-- BUDGETS:END -->', lambda _: '<!-- BUDGETS:BEGIN -->\n' + budgets + '\n<!-- BUDGETS:END -->', s, flags=re.S)
s = re.sub(r'<!-- SEEDS:BEGIN -->.*?<!-- SEEDS:END -->', lambda _: '<!-- SEEDS:BEGIN -->\n' + seeds + '\n<!-- SEEDS:END -->', s, flags=re.S)
open(V + '/DESIGN.md', 'w').write(s)
print('tables written')
