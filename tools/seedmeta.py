#!/usr/bin/env python3
"""Writes /verif/seeded/<name>/meta.json from the confirmation log and the check logs of a seeded change.
   tools/seedmeta.py <name> <property> <wave> "<change>" "<needs to manifest>" ["<history: missed at first ...>"]"""
import json, os, re, sys, glob
name, prop, wave, change, needs = sys.argv[1:6]
hist = sys.argv[6] if len(sys.argv) > 6 else ''
d = '/verif/seeded/' + name
log = open(d + '/confirm.log').read()
meta = {
 'property': prop, 'wave': int(wave), 'change': change, 'needs_to_manifest': needs,
 'origin': 'fresh sub-agent given only the property text, the locations of the earlier changes for that property (to avoid them) and a scratch worktree of /repo',
 'confirmed_by_me': {
  'script': 'tools/seedconfirm.sh (scratch worktree under /tmp, removed afterwards)',
  'builds': 'build with change: ok' in log,
  'existing_tests_pass_with_change': bool(re.search(r'existing tests with change: pass', log)),
  'demo_fails_with_change': bool(re.search(r'demo with change: exit [1-9]', log)),
  'demo_passes_without_change': 'demo without change: exit 0' in log,
  'verdict': 'CONFIRMED' if re.search(r'^CONFIRMED', log, re.M) else 'NOT CONFIRMED',
 },
 'checks': {},
}
if hist:
    meta['history'] = hist
for f in sorted(glob.glob(d + '/check-*.log')):
    p = os.path.basename(f)[6:-4]
    t = open(f).read()
    sigs = sorted(set(re.findall(r'^violation: (\S+)', t, re.M)))
    summ = re.findall(r'^check .*', t, re.M)
    meta['checks'][p] = {
     'command': 'tools/seedrun.sh %s %s   # = the registered quick check built from a scratch worktree of /repo with seeded/%s/patch.diff applied' % (name, p, name),
     'violation_lines': len(re.findall(r'^VIOLATION', t, re.M)), 'signatures': sigs, 'summary': summ[-1] if summ else ''}
json.dump(meta, open(d + '/meta.json', 'w'), indent=1)
print(name, meta['confirmed_by_me']['verdict'], {p: c['violation_lines'] for p, c in meta['checks'].items()})
