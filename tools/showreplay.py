#!/usr/bin/env python3
"""Print a replay file (or worker line) compactly: scenario, faults, knobs, schedule, violation, final summary."""
import json, sys
def path(p):
    s=''
    for e in p:
        s+='/'+e['Name']
        for k in (e.get('Keys') or []): s+='[%s=%s]'%(k[0],k[1])
    return s or '/'
def showplan(pl):
    print('knobs:', {k:v for k,v in pl['knobs'].items() if v})
    sc=pl['sched']; print('sched: policy=%s p=%s starve=%s seed=%s vec_len=%s nonzero=%s'%(sc.get('policy'),sc.get('p'),sc.get('starve'),sc.get('seed'),len(sc.get('vec') or []),sum(1 for x in (sc.get('vec') or []) if x)))
    for i,op in enumerate(pl.get('scenario') or []):
        if op['kind']=='set':
            t={tg:[('del ' if o.get('del') else '')+path(o['p'])+(('='+o['v']) if not o.get('del') else '') for o in ops] for tg,ops in op['targets'].items()}
            print(' op%d set %s%s wait=%s prefix=%s %s'%(i,'async' if op.get('async') else 'sync',' serial' if op.get('serial') else '',op.get('wait'),op.get('prefix',False),t))
        elif op['kind']=='rollback':
            print(' op%d rollback of=op%s raw=%s wait=%s'%(i,op.get('of'),op.get('raw'),op.get('wait')))
        else:
            print(' op%d %s'%(i,op))
    for f in pl.get('faults') or []: print(' fault',f)
r=json.load(open(sys.argv[1]))
if 'res' in r: r={'plan':r['res']['plan'],'violation':r['res'].get('violations'),'summary':r['res']['summary'],'trace':r.get('trace')}
showplan(r['plan'])
print('violation:', json.dumps(r.get('violation')))
print('final:', r.get('summary'))
if len(sys.argv)>2:
    n=int(sys.argv[2]); tr=r.get('trace') or []
    print('trace (%d actions), last %d:'%(len(tr),n)); print('\n'.join(tr[-n:]))
