#!/bin/bash
# Runs registered checks against a scratch worktree of /repo with a seeded change applied; /repo itself is not touched.
#   tools/seedrun.sh <name under /verif/seeded> <PROP> [<PROP> ...]     (env TIER=quick|thorough, RUNS=n)
# The driver builds from the scratch tree (VERIF_EXPERIMENT_REPO); evidence and replays of these runs go to
# /verif/seeded/<name>/, never to /verif/evidence or /verif/replays. Equivalent by hand:
#   git -C /repo apply seeded/<name>/patch.diff; ./bin/check <PROP> --tier quick; git -C /repo checkout -- .
set -u
name=$1; shift
d=/verif/seeded/$name
[ -f "$d/patch.diff" ] || { echo "no $d/patch.diff"; exit 2; }
wt=/tmp/seedrun-$name-$$
base=HEAD
[ -f "$d/base-commit" ] && base=$(cat "$d/base-commit")
git -C /repo worktree add --detach -q "$wt" HEAD || { echo "cannot create worktree"; exit 2; }
trap 'git -C /repo worktree remove --force "$wt" 2>/dev/null; git -C /repo worktree prune' EXIT
if [ "$base" != HEAD ]; then
  # the change was made for an older version of the files it touches (a later fix rewrote that code): those files are taken
  # from the base commit
  for f in $(grep '^diff --git' "$d/patch.diff" | sed 's/.* b\///'); do git -C "$wt" checkout -q "$base" -- "$f"; done
fi
git -C "$wt" apply "$d/patch.diff" || { echo "patch does not apply"; exit 2; }
export VERIF_EXPERIMENT_REPO=$wt VERIF_EVIDENCE_DIR=$d/evidence VERIF_REPLAY_DIR=$d/replays
cd /verif
for p in "$@"; do
  ./bin/check $p --tier ${TIER:-quick} ${RUNS:+--runs $RUNS} > "$d/check-$p.log" 2>&1
  rc=$?
  echo "== $name  check $p: exit $rc   $(grep -c '^VIOLATION' "$d/check-$p.log") VIOLATION line(s)"
  grep '^VIOLATION' "$d/check-$p.log" | cut -c1-220 | head -4
done
