#!/bin/bash
# Runs registered checks against /repo with a seeded change applied, then restores /repo.
#   tools/seedrun.sh <name under /verif/seeded> <PROP> [<PROP> ...]     (env TIER=quick|thorough, RUNS=n)
# Evidence and replays of these runs go to /verif/seeded/<name>/, never to /verif/evidence or /verif/replays.
set -u
name=$1; shift
d=/verif/seeded/$name
[ -f "$d/patch.diff" ] || { echo "no $d/patch.diff"; exit 2; }
if [ -n "$(git -C /repo status --porcelain)" ]; then echo "/repo is not clean"; exit 2; fi
git -C /repo apply "$d/patch.diff" || { echo "patch does not apply"; exit 2; }
trap 'git -C /repo checkout -- . ; git -C /repo status --porcelain' EXIT
export VERIF_EVIDENCE_DIR=$d/evidence VERIF_REPLAY_DIR=$d/replays
cd /verif
for p in "$@"; do
  ./bin/check $p --tier ${TIER:-quick} ${RUNS:+--runs $RUNS} > "$d/check-$p.log" 2>&1
  rc=$?
  echo "== $name  check $p: exit $rc   $(grep -c '^VIOLATION' "$d/check-$p.log") VIOLATION line(s)"
  grep '^VIOLATION\|^KNOWN-FINDING' "$d/check-$p.log" | cut -c1-220 | head -8
done
