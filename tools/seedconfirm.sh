#!/bin/bash
# Confirms a seeded change delivered in a scratch worktree (never /repo) and stores it under /verif/seeded/<name>/.
#   tools/seedconfirm.sh <worktree> <name> [<go test -run regex>]
# Steps: patch.diff == the worktree's source diff; the tree builds; the existing tests pass with the change (demo files
# set aside); the demonstration fails with the change and passes without it.
set -u
export GOFLAGS=-mod=mod GOPROXY=off GOSUMDB=off
wt=$1; name=$2; rx=${3:-.}
out=/verif/seeded/$name
mkdir -p "$out"
log=$out/confirm.log
: > "$log"
say() { echo "$@" | tee -a "$log"; }
cd "$wt" || exit 2
demos=$(git ls-files --others --exclude-standard -- pkg cmd test 2>/dev/null | grep -v '^OUT/')
say "worktree: $wt  HEAD $(git rev-parse --short HEAD)"
say "demo files: $demos"
git diff -- . ':!OUT' > /tmp/seedconfirm.$$.diff
if ! diff -q <(grep -v '^index ' /tmp/seedconfirm.$$.diff) <(grep -v '^index ' OUT/patch.diff) >/dev/null; then
  # (git stash is shared between worktrees: a seeder's stash pop may have brought in someone else's edit)
  say "NOTE: the worktree's diff differs from OUT/patch.diff; resetting the worktree to HEAD + OUT/patch.diff"
  git checkout -- . && git apply OUT/patch.diff || { say "OUT/patch.diff does not apply to HEAD"; exit 2; }
fi
cp OUT/patch.diff "$out/patch.diff"; rm -f /tmp/seedconfirm.$$.diff
say "patch: $(grep -c '^[+-][^+-]' "$out/patch.diff") changed lines in $(grep -c '^diff --git' "$out/patch.diff") file(s)"
# 1. build
if go build ./... >>"$log" 2>&1; then say "build with change: ok"; else say "build with change: FAILED"; exit 1; fi
# 2. existing tests with the change, demo set aside
aside=$(mktemp -d /tmp/seedaside.XXXX)
for f in $demos; do mkdir -p "$aside/$(dirname $f)"; mv "$f" "$aside/$f"; done
if go test -vet=off -count=1 -timeout 25m $(go list ./... | grep -v "/OUT/") >"$out/existing-tests.log" 2>&1; then say "existing tests with change: pass ($(grep -c '^ok' "$out/existing-tests.log") packages ok)"; r2=0; else
  # two of the repository's tests have wall-clock time-outs that trip on a loaded machine (pkg/store/v2/proposal, 5 s watch;
  # pkg/southbound/gnmi): packages that failed are run again on their own before the change is blamed
  failed=$(grep -E '^FAIL\s+github.com' "$out/existing-tests.log" | awk '{print $2}' | sort -u)
  say "existing tests with change: first run failed in: $failed ; re-running those packages alone"
  if [ -n "$failed" ] && go test -p 1 -vet=off -count=1 -timeout 25m $failed >"$out/existing-tests-rerun.log" 2>&1; then say "existing tests with change: pass on re-run ($(grep -c '^ok' "$out/existing-tests.log") + $(grep -c '^ok' "$out/existing-tests-rerun.log") packages ok)"; r2=0; else say "existing tests with change: FAIL"; grep -E '^(FAIL|---)' "$out/existing-tests-rerun.log" | head -20 | tee -a "$log"; r2=1; fi
fi
for f in $demos; do mv "$aside/$f" "$f"; done; rm -rf "$aside"
# 3. demo with the change: must fail
pkgs=$(for f in $demos; do echo "./$(dirname $f)"; done | sort -u)
say "demo packages: $pkgs"
go test ${SEED_TAGS:+-tags $SEED_TAGS} -vet=off -count=1 -timeout 20m -run "$rx" $pkgs >"$out/demo-with-change.log" 2>&1; r3=$?
say "demo with change: exit $r3 (expected non-zero)"; grep -E '^(--- FAIL|FAIL|ok|panic)' "$out/demo-with-change.log" | head -10 | tee -a "$log"
# 4. demo without the change: must pass
git apply -R "$out/patch.diff" || { say "cannot reverse patch"; exit 2; }
go test ${SEED_TAGS:+-tags $SEED_TAGS} -vet=off -count=1 -timeout 20m -run "$rx" $pkgs >"$out/demo-without-change.log" 2>&1; r4=$?
say "demo without change: exit $r4 (expected 0)"; grep -E '^(--- FAIL|FAIL|ok|panic)' "$out/demo-without-change.log" | head -10 | tee -a "$log"
git apply "$out/patch.diff"
mkdir -p "$out/demo"
for f in $demos; do mkdir -p "$out/demo/$(dirname $f)"; cp "$f" "$out/demo/$f"; done
[ -f OUT/NOTES.md ] && cp OUT/NOTES.md "$out/NOTES.md"
if [ $r2 = 0 ] && [ $r3 != 0 ] && [ $r4 = 0 ]; then say "CONFIRMED"; exit 0; else say "NOT CONFIRMED"; exit 1; fi
