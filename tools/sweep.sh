#!/bin/bash
# Background robustness sweep from a snapshot of /verif (vp run): quick or thorough tier of every claimed property under
# several base seeds, against /repo as it is. Evidence/replays stay inside the snapshot; nothing here is registered evidence.
#   vp run --timeout 5h -- bash tools/sweep.sh "<seeds>" <tier> [props...]
set -u
seeds=${1:-"2 3"}; tier=${2:-quick}; shift 2 || true
props=${*:-"C01 C02 C03 C04 C05 C06 C07 C08 C09 C10 C11 C15 C19 C20"}
export GOFLAGS=-mod=mod GOPROXY=off GOSUMDB=off
here=$(pwd)
mkdir -p bin && (cd cmd/check && go build -o "$here/bin/check" .) && (cd tools/detmap && GOTOOLCHAIN=local go1.26.8 build -o "$here/bin/detmap" .) || exit 2
export VERIF_DIR=$here
for s in $seeds; do for p in $props; do
  export VERIF_SEED=$s VERIF_EVIDENCE_DIR=$here/sweep/ev-$s VERIF_REPLAY_DIR=$here/sweep/rp-$s
  mkdir -p "$VERIF_EVIDENCE_DIR" "$VERIF_REPLAY_DIR"
  ./bin/check $p --tier $tier ${WORKERS:+--workers $WORKERS} > sweep/log-$s-$p.txt 2>&1; rc=$?
  echo "seed=$s $p tier=$tier exit=$rc $(grep -c '^VIOLATION' sweep/log-$s-$p.txt) violations; $(grep '^check ' sweep/log-$s-$p.txt | tail -1 | cut -c1-200)"
done; done
